"""Mechanical mutation sweep (complements the hand-written mutants and the
independently written changes under seeded/).

Small syntactic mutants (operator flips, boundary shifts, dropped statements)
of the files the scheduler properties are anchored in are applied, one at a
time, to a scratch copy of the tree on /dev/shm.  A mutant that still passes
the repository's own scheduler tests is then shown to the quick checks of
the properties named for the file; the sweep lists the survivors - mutants
neither the tests nor any check notices.  Survivors are reviewed by hand:
an equivalent mutant is recorded as such, anything else is a gap to close.

usage: python tools/mutsweep.py <group> [--n 120] [--seed 1] [--runs 2400]
       groups: scheduler, loader, master
Results: /verif/mutants/sweep-<group>.json (all mutants with their fate).
"""

import json
import os
import random
import re
import shutil
import subprocess
import sys
import tempfile

HERE = os.path.dirname(os.path.abspath(__file__))
VERIF = os.path.dirname(HERE)

GROUPS = {
    'scheduler': {
        'file': 'lib/python/treadmill/scheduler/__init__.py',
        'tests': ['lib/python/treadmill/tests/scheduler_test.py',
                  'lib/python/treadmill/tests/master_test.py'],
        'props': ['C01', 'C02', 'C03', 'C04', 'C05', 'C06', 'C07', 'C08',
                  'C09', 'C11'],
    },
    'loader': {
        'file': 'lib/python/treadmill/scheduler/loader.py',
        'tests': ['lib/python/treadmill/tests/scheduler_test.py',
                  'lib/python/treadmill/tests/master_test.py'],
        'props': ['C09', 'C11', 'C10', 'C02', 'C01', 'C03', 'C05', 'C06', 'C08'],
    },
    'master': {
        'file': 'lib/python/treadmill/scheduler/master.py',
        'tests': ['lib/python/treadmill/tests/scheduler_test.py',
                  'lib/python/treadmill/tests/master_test.py'],
        'props': ['C09', 'C10', 'C11', 'C02', 'C08', 'C01', 'C05'],
    },
}

# (regex, replacement) applied to ONE occurrence on ONE code line
RULES = [
    (r' <= ', ' < '), (r' < ', ' <= '), (r' >= ', ' > '), (r' > ', ' >= '),
    (r' == ', ' != '), (r' != ', ' == '),
    (r' is not None', ' is None'), (r' is None', ' is not None'),
    (r' is not ', ' is '),
    (r' and ', ' or '), (r' or ', ' and '),
    (r'\bif not ', 'if '), (r'\bif (?!not )', 'if not '),
    (r'\bTrue\b', 'False'), (r'\bFalse\b', 'True'),
    (r' \+ 1\b', ' + 2'), (r' - 1\b', ' - 2'), (r' \+ ', ' - '),
    (r'\bcontinue$', 'pass'), (r'\bbreak$', 'pass'),
    (r'\breturn False$', 'return True'), (r'\breturn True$', 'return False'),
    (r'\bmin\(', 'max('), (r'\bmax\(', 'min('),
    (r'\breversed\(', '('), (r'\bsorted\(', 'list('),
]
# whole-statement deletion: a line that is a plain call or assignment
DELETABLE = re.compile(r'^(\s+)(self\.[\w\.]+\(.*\)|[\w\.]+\.[\w]+\(.*\)|'
                       r'[\w\.\[\]\']+ [\+\-]?= .*)$')


def candidates(text):
    out = []
    lines = text.split('\n')
    in_doc = False
    for i, line in enumerate(lines):
        stripped = line.strip()
        if stripped.count('"""') == 1:
            in_doc = not in_doc
            continue
        if in_doc or not stripped or stripped.startswith('#') or \
                stripped.startswith('_LOGGER') or 'import ' in stripped or \
                stripped.startswith(('def ', 'class ', '@', '"""', "'")):
            continue
        code = line.split('  #')[0]
        for k, (pat, rep) in enumerate(RULES):
            for m in re.finditer(pat, code):
                new = code[:m.start()] + re.sub(pat, rep, m.group(0)) + \
                    code[m.end():]
                if new != code:
                    out.append((i, 'r%d' % k, line, new + line[len(code):]))
        if DELETABLE.match(code) and not code.rstrip().endswith(('(', ',')):
            nxt = lines[i + 1] if i + 1 < len(lines) else ''
            # only statements that fit on one line
            if code.count('(') == code.count(')') and \
                    code.count('[') == code.count(']') and \
                    (not nxt.strip() or
                     len(nxt) - len(nxt.lstrip()) <=
                     len(line) - len(line.lstrip())):
                indent = DELETABLE.match(code).group(1)
                out.append((i, 'del', line, indent + 'pass'))
    return out


def scratch():
    root = tempfile.mkdtemp(prefix='tmverif-sweep-', dir='/dev/shm')
    dst = os.path.join(root, 'lib', 'python')
    os.makedirs(dst)
    subprocess.check_call(['cp', '-r', '/repo/lib/python/treadmill', dst])
    shutil.copy('/repo/entry_points.txt', root)
    return root


def run_tests(root, tests):
    env = dict(os.environ, PYTHONPATH=os.path.join(root, 'lib', 'python'))
    proc = subprocess.run(
        ['/venv/bin/python', '-m', 'pytest', '-q', '-x', '-p',
         'no:cacheprovider', '--timeout=120'] + tests,
        cwd=root, env=env, stdout=subprocess.PIPE, stderr=subprocess.STDOUT)
    return proc.returncode == 0, proc.stdout.decode('utf-8', 'replace')


def run_check(root, prop, runs, seed):
    env = dict(os.environ, VERIF_REPO=root,
               VERIF_OUT_DIR=os.path.join(root, 'out'),
               VERIF_RUNS=str(runs), VERIF_MINIMISE_S='0',
               VERIF_SEED=str(seed))
    proc = subprocess.run([os.path.join(VERIF, 'vcheck'), prop, 'quick'],
                          cwd=VERIF, env=env, stdout=subprocess.PIPE,
                          stderr=subprocess.STDOUT)
    text = proc.stdout.decode('utf-8', 'replace')
    sigs = sorted({line.split('signature:')[1].strip()
                   for line in text.splitlines() if 'signature:' in line})
    return proc.returncode, sigs, text


def main(argv):
    group = argv[0]
    opts = dict(zip(argv[1::2], argv[2::2]))
    n = int(opts.get('--n', 120))
    seed = int(opts.get('--seed', 1))
    runs = int(opts.get('--runs', 2400))
    spec = GROUPS[group]
    with open(os.path.join('/repo', spec['file'])) as f:
        text = f.read()
    cands = candidates(text)
    rng = random.Random(seed)
    rng.shuffle(cands)
    cands = cands[:n]
    out_path = os.path.join(VERIF, 'mutants', 'sweep-%s.json' % group)
    results = []
    for lineno, rule, old, new in cands:
        root = scratch()
        res = {'file': spec['file'], 'line': lineno + 1, 'rule': rule,
               'old': old.strip(), 'new': new.strip()}
        try:
            path = os.path.join(root, spec['file'])
            lines = text.split('\n')
            lines[lineno] = new
            with open(path, 'w') as f:
                f.write('\n'.join(lines))
            comp = subprocess.run(['/venv/bin/python', '-m', 'py_compile',
                                   path], stdout=subprocess.PIPE,
                                  stderr=subprocess.STDOUT)
            if comp.returncode != 0:
                res['fate'] = 'does-not-compile'
            else:
                # the tests that pass on the unchanged tree (these two files
                # pass completely there)
                ok, _txt = run_tests(root, spec['tests'])
                if not ok:
                    res['fate'] = 'killed-by-tests'
                else:
                    res['fate'] = 'SURVIVED'
                    for prop in spec['props']:
                        rc, sigs, txt = run_check(root, prop, runs, seed)
                        if rc == 1:
                            res['fate'] = 'caught'
                            res['by'] = prop
                            res['signatures'] = sigs[:4]
                            break
                        if rc != 0:
                            res.setdefault('errors', []).append(
                                [prop, rc, txt[-400:]])
        finally:
            shutil.rmtree(root, ignore_errors=True)
        results.append(res)
        print('%-5d %-4s %-16s %-40s -> %s' % (
            res['line'], res['rule'], res['fate'] + (
                ':' + res['by'] if 'by' in res else ''),
            res['old'][:40], res['new'][:40]))
        sys.stdout.flush()
        with open(out_path, 'w') as f:
            json.dump(results, f, indent=1)
    fates = {}
    for res in results:
        fates[res['fate']] = fates.get(res['fate'], 0) + 1
    print(json.dumps(fates))
    return 0


if __name__ == '__main__':
    sys.exit(main(sys.argv[1:]))
