"""Oracle for C18 (archiving trace history never loses or prematurely archives).

Written from the property statement.  Nothing here calls the code under test:
the znode tree is read directly from the simulated server (`SimZk.nodes`), the
history snapshots are opened with zlib + sqlite3 (`deserialize`, no files), the
server's op log says which nodes were created / deleted in which phase of the
archiving run.  The second view (the repo's own `download_batch` /
`list_traces`) is supplied by the engine as callables and only ever *adds*
demands (an event the independent view finds in a snapshot must also be
returned by the real API).

Vocabulary
  kind      'trace' (/trace/<shard>/<inst>,<ts>,<src>,<type>,<data>),
            'finished' (/finished/<inst>, data + mtime),
            'server' (/server-trace/<shard>/<server>,<ts>,...)
  universe  what was live when the archiving run started (the "existed
            beforehand" of the statement)
  exempt    app events deleted by the cron's two policy prunes
            (prune_trace_evictions / prune_trace_service_events): deliberate
            deletions that are not archiving
  allowed   snapshot nodes the keep-newest rule lets a history prune delete:
            all but the `max_count` highest sequence numbers present when the
            prune call starts
  accounted content of the `allowed` snapshots (legitimately dropped with them)

Clauses (first failing one is reported, deterministic order)
  snapshot-unreadable            an existing snapshot does not decompress/open
  snapshot-deleted-outside-prune a snapshot that existed before the run
                                 vanished although no prune of its kind had
                                 started (a snapshot created and removed again
                                 by the same pass is judged by losslessness)
  prune-kept-wrong-snapshots     a prune deleted a snapshot outside `allowed`,
                                 or completed without deleting all of `allowed`
  scheduled-instance-archived    event of an instance in /scheduled not live
  young-event-archived           event younger than the expiry not live
  young-finished-archived        finished record younger than the expiry gone
  event-lost / server-event-lost / finished-lost : not live, in no existing
                                 snapshot, not accounted
  event-not-retrievable-by-api / finished-not-listed-by-api : second view
"""

import sqlite3
import zlib

TRACE = '/trace'
FINISHED = '/finished'
SERVER_TRACE = '/server-trace'
SCHEDULED = '/scheduled'

KINDS = ('trace', 'finished', 'server')
HIST = {'trace': '/trace.history', 'finished': '/finished.history',
        'server': '/server-trace.history'}
TABLE = {'trace': 'trace', 'finished': 'finished', 'server': 'server_trace'}

PHASES = ('prune_trace_evictions', 'prune_trace_service_events',
          'cleanup_trace', 'cleanup_finished', 'cleanup_trace_history',
          'cleanup_finished_history', 'cleanup_server_trace',
          'cleanup_server_trace_history')
PRUNE_OF = {'cleanup_trace_history': 'trace',
            'cleanup_finished_history': 'finished',
            'cleanup_server_trace_history': 'server'}
POLICY_PRUNES = ('prune_trace_evictions', 'prune_trace_service_events')

_DECODE_CACHE = {}


def decode(data, table):
    """Snapshot bytes -> tuple of rows (path, timestamp, data, directory,
    name), or None if unreadable.  Pure function of the bytes (cached)."""
    key = (table, data)
    hit = _DECODE_CACHE.get(key, 0)
    if hit != 0:
        return hit
    rows = _decode(data, table)
    if len(_DECODE_CACHE) > 5000:
        _DECODE_CACHE.clear()
    _DECODE_CACHE[key] = rows
    return rows


_SQLITE_MAGIC = b'SQLite format 3\x00'


def _decode(data, table):
    """Everything here parses bytes PRODUCED by the code under test: whatever
    goes wrong is a property of those bytes (=> None, reported as
    snapshot-unreadable), never a harness error."""
    try:
        raw = zlib.decompress(data)
    except (zlib.error, TypeError, ValueError):
        return None
    # sqlite3.deserialize raises MemoryError on b'' and accepts garbage
    # lazily: insist on a database header first
    if len(raw) < 100 or not raw.startswith(_SQLITE_MAGIC):
        return None
    try:
        conn = sqlite3.connect(':memory:')
        try:
            conn.deserialize(raw)
            rows = conn.execute(
                'SELECT path, timestamp, data, directory, name FROM %s'
                % table).fetchall()
        finally:
            conn.close()
    except (sqlite3.Error, MemoryError, OverflowError, ValueError,
            TypeError, UnicodeError):
        return None
    out = []
    for row in rows:
        # path / directory / name must be text for the row to identify
        # anything; other shapes make the snapshot unreadable
        if not isinstance(row[0], str) or not isinstance(row[4], str):
            return None
        out.append(tuple(row))
    return tuple(out)


def seqno(name):
    """Sequence number of a snapshot node name (written by the code under
    test through ZooKeeper's sequence flag); -1 if it has none."""
    tail = name[-10:]
    if len(tail) == 10 and tail.isdigit():
        return int(tail)
    return -1


def parse_event(name):
    """'<object>,<timestamp>,...' -> (object, float or None).  Event node
    names are written by the repo's publish(): an unparsable one is data,
    not a harness error (no expiry clause can apply to it)."""
    parts = name.split(',', 2)
    stamp = None
    if len(parts) >= 2:
        try:
            stamp = float(parts[1])
        except ValueError:
            stamp = None
        if stamp is not None and stamp != stamp:
            stamp = None
    return parts[0], stamp


def live_events(zk, root):
    """path -> event node name, for every event under every shard."""
    out = {}
    for shard in zk.children(root) or []:
        spath = root + '/' + shard
        for event in zk.children(spath) or []:
            out[spath + '/' + event] = event
    return out


def live_finished(zk):
    """instance -> (data bytes, mtime in ms)."""
    out = {}
    for inst in zk.children(FINISHED) or []:
        node = zk.nodes[FINISHED + '/' + inst]
        out[inst] = (node.data, node.mtime)
    return out


def snapshots(zk, kind):
    """snapshot node name -> data bytes."""
    out = {}
    for name in zk.children(HIST[kind]) or []:
        out[name] = zk.nodes[HIST[kind] + '/' + name].data
    return out


class ArchiveState:
    """What the oracle remembers about one archiving run."""

    def __init__(self, zk, params, now):
        self.params = params
        self.t_start = now
        self.oplog_start = len(zk.oplog)
        trace = {}
        for path, name in live_events(zk, TRACE).items():
            inst, stamp = parse_event(name)
            trace[path] = (inst, stamp, name)
        server = {}
        for path, name in live_events(zk, SERVER_TRACE).items():
            server[path] = (parse_event(name)[0], name)
        self.universe = {'trace': trace, 'server': server,
                         'finished': live_finished(zk)}
        self.scheduled = set(zk.children(SCHEDULED) or [])
        self.snaps_start = {kind: set(snapshots(zk, kind)) for kind in KINDS}
        self.exempt = set()
        self.allowed = {kind: set() for kind in KINDS}
        self.accounted = {kind: set() for kind in KINDS}
        self.at_prune_start = {kind: set() for kind in KINDS}
        self.prune_started = {kind: False for kind in KINDS}
        self.prune_done = {kind: False for kind in KINDS}
        self.t_begin = {}
        self.t_end = {}
        self.phase = None
        self.phase_oplog = self.oplog_start
        self.phases_done = 0
        self.outcome = None       # None while running, then 'complete',
        #                           'crash', 'died', 'raised'

    def max_count(self, kind):
        # the cron passes trace_history_max_count to the server-trace prune
        return self.params['max_f'] if kind == 'finished' \
            else self.params['max_t']

    def begin_phase(self, phase, zk, now):
        self.phase = phase
        self.phase_oplog = len(zk.oplog)
        self.t_begin[phase] = now
        kind = PRUNE_OF.get(phase)
        if kind is None:
            return
        snaps = snapshots(zk, kind)
        names = sorted(snaps, key=lambda n: (seqno(n), n))
        extra = len(names) - self.max_count(kind)
        self.prune_started[kind] = True
        self.at_prune_start[kind] = set(names)
        if extra <= 0:
            return
        for name in names[:extra]:
            self.allowed[kind].add(name)
            rows = decode(snaps[name], TABLE[kind])
            for row in rows or ():
                self.accounted[kind].add(
                    row[4] if kind == 'finished' else row[0])

    def end_phase(self, phase, zk, now, complete):
        self.t_end[phase] = now
        if phase in POLICY_PRUNES:
            for entry in zk.oplog[self.phase_oplog:]:
                if entry[2] == 'delete' and entry[3].startswith(TRACE + '/'):
                    self.exempt.add(entry[3])
        if complete:
            self.phases_done += 1
            kind = PRUNE_OF.get(phase)
            if kind is not None:
                self.prune_done[kind] = True

    def created(self, zk, kind):
        prefix = HIST[kind] + '/'
        out = set()
        for entry in zk.oplog[self.oplog_start:]:
            if entry[2] == 'create' and entry[3].startswith(prefix):
                out.add(entry[3][len(prefix):])
        return out


def _viol(sig, detail):
    return {'sig': sig, 'detail': detail}


def evaluate(st, zk, api, now):
    """-> (violation or None, stats).  `api` offers download(kind, snapshot
    name, data, object name) -> list of event names and list_finished() ->
    list of instance names, both running the repository's readers; either may
    raise (reported)."""
    mode = 'complete' if st.outcome in (None, 'complete') else 'crash'
    stats = {'archived': 0, 'kept_young': 0, 'kept_scheduled': 0,
             'both_live_and_archived': 0, 'pruned': 0, 'created': 0,
             'finished_archived': 0, 'server_archived': 0, 'exempt': 0,
             'rolled_back': 0}

    # -- snapshots: readable; only pruning removes them, by the rule
    contents = {}
    existing = {}
    for kind in KINDS:
        snaps = snapshots(zk, kind)
        existing[kind] = snaps
        where = {}
        for name in sorted(snaps, key=lambda n: (seqno(n), n)):
            if seqno(name) < 0:
                return _viol('C18:snapshot-unreadable',
                             '%s/%s: node name carries no 10-digit sequence '
                             'number' % (HIST[kind], name)), stats
            rows = decode(snaps[name], TABLE[kind])
            if rows is None:
                return _viol('C18:snapshot-unreadable',
                             '%s/%s (%d bytes) does not decompress into an '
                             'sqlite database with table %s' % (
                                 HIST[kind], name, len(snaps[name]),
                                 TABLE[kind])), stats
            for row in rows:
                key = row[4] if kind == 'finished' else row[0]
                where.setdefault(key, []).append((name, row))
        contents[kind] = where
        created = st.created(zk, kind)
        stats['created'] += len(created)
        known = st.snaps_start[kind] | created
        missing = known - set(snaps)
        stats['pruned'] += len(missing)
        # A snapshot made by this very pass and removed again before any
        # prune of its kind looked at the directory (an upload rolled back by
        # the archiver) is not by itself forbidden by the statement: whether
        # something was lost with it is decided by the losslessness clauses
        # below.  Snapshots that existed beforehand, or that a prune found,
        # may only go by the keep-newest rule.
        bad = sorted(name for name in missing - st.allowed[kind]
                     if name in st.snaps_start[kind] or
                     name in st.at_prune_start[kind])
        stats['rolled_back'] += len(missing - st.allowed[kind]) - len(bad)
        if bad:
            if not st.prune_started[kind]:
                return _viol('C18:snapshot-deleted-outside-prune',
                             '%s: %s existed before the archiving run and '
                             'were deleted although no history prune of that '
                             'kind had started' % (HIST[kind], bad)), stats
            return _viol('C18:prune-kept-wrong-snapshots',
                         '%s: deleted %s; max_count=%d, present when the '
                         'prune started: may delete only %s' % (
                             HIST[kind], bad, st.max_count(kind),
                             sorted(st.allowed[kind]))), stats
        if st.prune_done[kind]:
            left = sorted(st.allowed[kind] & set(snaps))
            if left:
                return _viol('C18:prune-kept-wrong-snapshots',
                             '%s: prune completed with max_count=%d but %s '
                             'still exist (%d snapshots left)' % (
                                 HIST[kind], st.max_count(kind), left,
                                 len(snaps))), stats

    # -- app trace events
    live = live_events(zk, TRACE)
    t_ref = st.t_end.get('cleanup_trace', now)
    expiry = st.params['expiry_t']
    for path in sorted(st.universe['trace']):
        inst, stamp, name = st.universe['trace'][path]
        if path in st.exempt:
            stats['exempt'] += 1
            continue
        is_live = path in live
        found = [(snap, row) for snap, row in
                 contents['trace'].get(path, ()) if row[4] == name]
        if inst in st.scheduled:
            if not is_live:
                return _viol('C18:scheduled-instance-archived',
                             '%s: instance %s is in /scheduled but the event '
                             'is no longer live (snapshots holding it: %s)'
                             % (path, inst, [s for s, _r in found])), stats
            stats['kept_scheduled'] += 1
        elif stamp is not None and stamp >= t_ref - expiry:
            if not is_live:
                return _viol('C18:young-event-archived',
                             '%s: timestamp %r, archive call ended at %r, '
                             'expiry %r: %.6f s younger than the expiry, not '
                             'live (snapshots holding it: %s)' % (
                                 path, stamp, t_ref, expiry,
                                 stamp - (t_ref - expiry),
                                 [s for s, _r in found])), stats
            stats['kept_young'] += 1
        if is_live:
            if found:
                stats['both_live_and_archived'] += 1
            continue
        if not found:
            if path in st.accounted['trace']:
                continue
            return _viol('C18:event-lost:' + mode,
                         '%s existed before the archiving run; now neither '
                         'live nor in any snapshot of %s (phase %s, %s)' % (
                             path, HIST['trace'], st.phase,
                             st.outcome or 'running')), stats
        stats['archived'] += 1
        snap = found[0][0]
        try:
            names = api.download('trace', snap, existing['trace'][snap], inst)
        except Exception as err:  # pylint: disable=broad-except
            return _viol('C18:event-not-retrievable-by-api',
                         'download_batch(%s, name=%s) raised %r' % (
                             snap, inst, err)), stats
        if name not in names:
            return _viol('C18:event-not-retrievable-by-api',
                         '%s is a row of %s/%s but download_batch(name=%s) '
                         'returned %d rows without it' % (
                             name, HIST['trace'], snap, inst,
                             len(names))), stats

    # -- finished records
    live_fin = live_finished(zk)
    t_ref = st.t_end.get('cleanup_finished', now)
    expiry = st.params['expiry_f']
    listed = None
    for inst in sorted(st.universe['finished']):
        data, mtime = st.universe['finished'][inst]
        is_live = inst in live_fin
        text = data.decode('utf-8', 'replace') if data is not None else None
        found = [(snap, row) for snap, row in
                 contents['finished'].get(inst, ())
                 if row[0] == FINISHED + '/' + inst and row[2] == text]
        if mtime / 1000.0 >= t_ref - expiry and not is_live:
            return _viol('C18:young-finished-archived',
                         '%s/%s: last modified %r, archive call ended at %r, '
                         'expiry %r: younger than the expiry, not live '
                         '(snapshots holding it: %s)' % (
                             FINISHED, inst, mtime / 1000.0, t_ref, expiry,
                             [s for s, _r in found])), stats
        if is_live:
            continue
        if not found:
            if inst in st.accounted['finished']:
                continue
            other = [(s, r[2]) for s, r in
                     contents['finished'].get(inst, ())]
            return _viol('C18:finished-lost:' + mode,
                         '%s/%s (%r) existed before the archiving run; now '
                         'neither live nor recorded with its data in a '
                         'snapshot (rows under that name: %s; phase %s, %s)'
                         % (FINISHED, inst, text, other, st.phase,
                            st.outcome or 'running')), stats
        stats['finished_archived'] += 1
        if listed is None:
            try:
                listed = set(api.list_finished())
            except Exception as err:  # pylint: disable=broad-except
                return _viol('C18:finished-not-listed-by-api',
                             'list_traces raised %r' % (err,)), stats
        if inst not in listed:
            return _viol('C18:finished-not-listed-by-api',
                         '%s is a row of %s/%s but list_traces does not '
                         'return it' % (inst, HIST['finished'],
                                        found[0][0])), stats

    # -- server trace events (no expiry, no scheduled clause)
    live = live_events(zk, SERVER_TRACE)
    for path in sorted(st.universe['server']):
        server, name = st.universe['server'][path]
        if path in live:
            continue
        found = [(snap, row) for snap, row in
                 contents['server'].get(path, ()) if row[4] == name]
        if not found:
            if path in st.accounted['server']:
                continue
            return _viol('C18:server-event-lost:' + mode,
                         '%s existed before the archiving run; now neither '
                         'live nor in any snapshot of %s (phase %s, %s)' % (
                             path, HIST['server'], st.phase,
                             st.outcome or 'running')), stats
        stats['server_archived'] += 1
        snap = found[0][0]
        try:
            names = api.download('server', snap, existing['server'][snap],
                                 server)
        except Exception as err:  # pylint: disable=broad-except
            return _viol('C18:event-not-retrievable-by-api',
                         'download_batch(%s, name=%s) raised %r' % (
                             snap, server, err)), stats
        if name not in names:
            return _viol('C18:event-not-retrievable-by-api',
                         '%s is a row of %s/%s but download_batch(name=%s) '
                         'returned %d rows without it' % (
                             name, HIST['server'], snap, server,
                             len(names))), stats
    return None, stats
