"""Seed mixing and named PRNG sub-streams (DESIGN.md 2.1)."""

import hashlib
import random


def mix(*parts):
    """Deterministically mix the parts into a 63-bit integer."""
    h = hashlib.blake2b(repr(parts).encode('utf-8'), digest_size=8)
    return int.from_bytes(h.digest(), 'big') >> 1


class Streams:
    """Named, independent PRNG streams derived from one seed.

    Removing a draw from one stream (e.g. during minimisation) does not shift
    the draws of the others.
    """

    def __init__(self, seed):
        self.seed = seed
        self._streams = {}

    def get(self, name):
        rng = self._streams.get(name)
        if rng is None:
            rng = random.Random(mix(self.seed, name))
            self._streams[name] = rng
        return rng

    __call__ = get


def weighted(rng, table):
    """Pick a key of `table` (list of (key, weight)) with the given weights."""
    total = 0.0
    for _key, weight in table:
        total += weight
    x = rng.random() * total
    acc = 0.0
    for key, weight in table:
        acc += weight
        if x < acc:
            return key
    return table[-1][0]
