"""Delta-debugging minimiser over a recorded op list (DESIGN.md 2.7)."""

from . import REAL_PERF


def ddmin(ops, fails, budget_s=60.0, max_tests=4000):
    """Return a (locally) minimal sub-list of `ops` for which fails(sub) holds.

    `fails` must be deterministic.  fails(ops) is assumed True.
    """
    t_end = REAL_PERF() + budget_s
    tests = [0]

    def test(candidate):
        tests[0] += 1
        return fails(candidate)

    def out_of_budget():
        return REAL_PERF() > t_end or tests[0] >= max_tests

    cur = list(ops)
    n = 2
    while len(cur) >= 2 and not out_of_budget():
        chunk = max(1, len(cur) // n)
        subsets = [cur[i:i + chunk] for i in range(0, len(cur), chunk)]
        reduced = False
        # try complements first (removing one chunk) - usually most productive
        for i in range(len(subsets)):
            if out_of_budget():
                break
            comp = [x for j, s in enumerate(subsets) if j != i for x in s]
            if comp and len(comp) < len(cur) and test(comp):
                cur = comp
                n = max(n - 1, 2)
                reduced = True
                break
        if not reduced:
            if n >= len(cur):
                break
            n = min(len(cur), n * 2)
    # final one-by-one pass
    i = 0
    while i < len(cur) and not out_of_budget():
        cand = cur[:i] + cur[i + 1:]
        if cand and test(cand):
            cur = cand
        else:
            i += 1
    return cur, tests[0]
