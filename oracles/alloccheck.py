"""Reference model for C19 (reservations within capacity and trait limits).

Written from the property statement, independently of the code under test:
nothing here imports treadmill.  Quantities are parsed by the harness's own
unit parser (cpu: percent, memory/disk: binary K/M/G or decimal KB/MB/GB, any
letter case), sums are taken over
the reservations the harness knows to be stored in the same cell and
partition, the one being replaced excluded.

"fits" means: for each of cpu, memory, disk
    request + sum(others) <= capacity of the partition,
and for every trait the reservation carries for which the partition has a
limit, the same with others restricted to those carrying that trait and the
capacity replaced by the trait's limit.  Equality fits.
"""

import re

DIMS = ('cpu', 'memory', 'disk')
DEFAULT_PARTITION = '_default'

_SIZE_RE = re.compile(r'^(\d+)([KkMmGg])([Bb]?)$')
_CPU_RE = re.compile(r'^(\d+)%$')
_POWER = {'k': 1, 'm': 2, 'g': 3}


class Unparsable(Exception):
    """A quantity the harness's parser does not understand."""


def parse_size(text):
    """'2G' / '2048M' / '2097152k' -> bytes in binary multiples; a unit letter
    followed by B or b (any letter case: 'GB', 'gb', 'Gb', 'gB') is a decimal
    multiple ('2GB' = 2 * 1000**3), as treadmill.utils.size_to_bytes
    documents."""
    if not isinstance(text, str):
        raise Unparsable(repr(text))
    match = _SIZE_RE.match(text.strip())
    if match is None:
        raise Unparsable(repr(text))
    base = 1000 if match.group(3) else 1024
    return int(match.group(1)) * base ** _POWER[match.group(2).lower()]


def parse_cpu(text):
    """'150%' -> 150."""
    if not isinstance(text, str):
        raise Unparsable(repr(text))
    match = _CPU_RE.match(text.strip())
    if match is None:
        raise Unparsable(repr(text))
    return int(match.group(1))


def parse_dim(dim, text):
    return parse_cpu(text) if dim == 'cpu' else parse_size(text)


def quantities(obj):
    """{'cpu': '100%', 'memory': '1G', 'disk': '1024M'} -> {dim: int}."""
    return {dim: parse_dim(dim, obj[dim]) for dim in DIMS}


ZERO_PARTITION = {'cpu': 0, 'memory': 0, 'disk': 0, 'limits': []}


class Model:
    """What is stored, as read back through the API after every op (so that
    the "other reservations" of a later request are the ones the directory
    really holds, with whatever traits they carry).

    res:   (alloc, cell) -> {'partition', 'cpu', 'memory', 'disk' (ints),
                             'traits' (sorted list), 'text' {dim: str}}
    parts: (cell, name)  -> {'cpu', 'memory', 'disk' (ints),
                             'limits': [{'trait', 'cpu', 'memory', 'disk'}]}
    """

    def __init__(self):
        self.res = {}
        self.parts = {}
        self.allocs = []      # allocation ids, insertion ordered

    # -- construction of model records from request documents
    @staticmethod
    def reservation(rsrc, old=None):
        """The reservation that results from `rsrc` (merged over `old`)."""
        rec = {}
        if old is not None:
            rec = {'partition': old['partition'],
                   'traits': list(old['traits']),
                   'text': dict(old['text'])}
            for dim in DIMS:
                rec[dim] = old[dim]
        else:
            rec = {'partition': DEFAULT_PARTITION, 'traits': [], 'text': {}}
        if 'partition' in rsrc:
            rec['partition'] = rsrc['partition']
        if 'traits' in rsrc:
            rec['traits'] = sorted(rsrc['traits'])
        for dim in DIMS:
            if dim in rsrc:
                rec[dim] = parse_dim(dim, rsrc[dim])
                rec['text'][dim] = rsrc[dim]
        return rec

    @staticmethod
    def partition(doc):
        part = quantities(doc)
        part['limits'] = []
        for lim in sorted(doc.get('limits', []), key=lambda l: l['trait']):
            rec = quantities(lim)
            rec['trait'] = lim['trait']
            part['limits'].append(rec)
        return part

    # -- the property
    def others(self, key, cell, partition):
        """Stored reservations of the same cell and partition, `key` excluded,
        in a deterministic order."""
        return [rec for okey, rec in sorted(self.res.items())
                if okey != key and okey[1] == cell and
                rec['partition'] == partition]

    def constraints(self, key, cell, rec):
        """[(label, trait or None, {dim: capacity}, {dim: used by others})]
        that apply to reservation `rec` stored under `key`."""
        part = self.parts.get((cell, rec['partition']), ZERO_PARTITION)
        others = self.others(key, cell, rec['partition'])
        out = [('partition', None,
                {dim: part[dim] for dim in DIMS},
                {dim: sum(o[dim] for o in others) for dim in DIMS})]
        for lim in part['limits']:
            if lim['trait'] not in rec['traits']:
                continue
            sharing = [o for o in others if lim['trait'] in o['traits']]
            out.append(('trait', lim['trait'],
                        {dim: lim[dim] for dim in DIMS},
                        {dim: sum(o[dim] for o in sharing) for dim in DIMS}))
        return out

    def misfit(self, key, cell, rec):
        """None if `rec` fits, else (label, dim, trait, total, capacity)."""
        for label, trait, cap, used in self.constraints(key, cell, rec):
            for dim in DIMS:
                total = rec[dim] + used[dim]
                if total > cap[dim]:
                    return (label, dim, trait, total, cap[dim])
        return None

    def free(self, key, cell, partition, traits):
        """{dim: the largest request that still fits} (may be negative)."""
        probe = {'partition': partition, 'traits': list(traits),
                 'cpu': 0, 'memory': 0, 'disk': 0}
        free = None
        for _label, _trait, cap, used in self.constraints(key, cell, probe):
            here = {dim: cap[dim] - used[dim] for dim in DIMS}
            if free is None:
                free = here
            else:
                free = {dim: min(free[dim], here[dim]) for dim in DIMS}
        return free

    def abstract(self):
        """JSON-able abstract state (for fingerprints and the event log)."""
        res = [[key[0], key[1], rec['partition'], rec['cpu'], rec['memory'],
                rec['disk'], rec['traits']]
               for key, rec in sorted(self.res.items())]
        parts = [[key[0], key[1], part['cpu'], part['memory'], part['disk'],
                  [[l['trait'], l['cpu'], l['memory'], l['disk']]
                   for l in part['limits']]]
                 for key, part in sorted(self.parts.items())]
        return [res, parts]


def stored_record(obj):
    """A reservation object as the API lists it -> model record, parsed with
    the harness's own parser (raises Unparsable)."""
    rec = {'partition': obj.get('partition', DEFAULT_PARTITION),
           'traits': sorted(obj.get('traits', [])),
           'text': {}}
    for dim in DIMS:
        rec[dim] = parse_dim(dim, obj.get(dim))
        rec['text'][dim] = obj.get(dim)
    return rec
