"""Batch orchestration: workers, aggregation, findings, replay, evidence.

Exit protocol (DESIGN.md 2.8): 0 = property held on everything explored,
1 = unlisted violation (a `VIOLATION property=<id> replay=<path>` line is
printed), 2 = harness error (never success, never a violation).
"""

import array
import fnmatch
import json
import os
import subprocess
import sys
import tempfile
import traceback

from . import VERIF_DIR, REPO, REAL_PERF, REAL_TIME, HarnessError
from . import rng as rngmod
from . import ddmin as ddminmod

PY = sys.executable
NWORKERS = int(os.environ.get('VERIF_WORKERS', '16'))
FINDINGS_FILE = os.path.join(VERIF_DIR, 'known_findings.json')
_OUT = os.environ.get('VERIF_OUT_DIR')   # sensitivity self-test only
REPLAY_DIR = os.path.join(_OUT or VERIF_DIR, 'replays')
REGRESS_DIR = os.path.join(VERIF_DIR, 'regress')
FINDINGS_DIR = os.path.join(VERIF_DIR, 'findings')
EVIDENCE_DIR = os.path.join(_OUT or VERIF_DIR, 'evidence')


def hashseed_for(base_seed, worker):
    return rngmod.mix('hashseed', base_seed, worker) % 4294967295


def run_seed(base_seed, prop, index):
    return rngmod.mix('run', base_seed, prop, index)


def get_engine(prop):
    import engines
    return engines.engine_for(prop)


# --------------------------------------------------------------------------
# known findings

def load_findings():
    try:
        with open(FINDINGS_FILE) as f:
            data = json.load(f)
    except FileNotFoundError:
        return []
    return data.get('findings', [])


def match_finding(findings, prop, sig):
    for entry in findings:
        if entry.get('property') != prop:
            continue
        if fnmatch.fnmatchcase(sig, entry['signature']):
            return entry
    return None


# --------------------------------------------------------------------------
# worker side

def worker_main(spec_path):
    import faulthandler
    with open(spec_path) as f:
        spec = json.load(f)
    faulthandler.enable()
    faulthandler.dump_traceback_later(spec.get('hard_timeout', 3600), exit=True)

    prop = spec['prop']
    engine = get_engine(prop)
    if spec.get('mode') == 'regress':
        results = []
        for path in spec['files']:
            with open(path) as f:
                doc = json.load(f)
            try:
                res = engine.execute(prop, doc['config'], doc['seed'],
                                     ops=doc['ops'])
                sig = res.violation['sig'] if res.violation else None
                detail = res.violation.get('detail') if res.violation else None
                results.append({'path': path, 'sig': sig, 'detail': detail})
            except Exception:  # pylint: disable=broad-except
                results.append({'path': path, 'error': traceback.format_exc()})
        with open(spec['out'], 'w') as f:
            json.dump({'regress': results}, f)
        with open(spec['out'] + '.fps', 'wb') as f:
            pass
        return 0
    tier = spec['tier']
    base_seed = spec['base_seed']
    out = {
        'runs': 0, 'steps': 0, 'sim_s': 0.0, 'faults': {}, 'probes': {},
        'violations': [], 'sig_counts': {}, 'digests': {}, 'traces': [],
        'samples': [], 'errors': [], 'nondet': [], 'extra': {},
    }
    fps = set()
    t0 = REAL_PERF()
    deadline = spec.get('deadline')   # real epoch seconds or None

    if spec.get('indices') is not None:
        indices = iter(spec['indices'])
    else:
        def _gen():
            i = spec['start']
            n = 0
            while spec.get('count') is None or n < spec['count']:
                yield i
                i += spec['step']
                n += 1
        indices = _gen()

    per_sig_kept = {}
    for index in indices:
        if deadline is not None and REAL_TIME() > deadline:
            break
        seed = run_seed(base_seed, prop, index)
        try:
            config = engine.make_config(
                prop, tier, rngmod.Streams(seed).get('config'))
            res = engine.execute(prop, config, seed)
        except Exception:  # pylint: disable=broad-except
            out['errors'].append({'index': index, 'seed': seed,
                                  'tb': traceback.format_exc()})
            if len(out['errors']) > 5:
                break
            continue
        out['runs'] += 1
        out['steps'] += res.steps
        out['sim_s'] += res.sim_s
        for k, v in res.faults.items():
            out['faults'][k] = out['faults'].get(k, 0) + v
        for k, v in res.probes.items():
            out['probes'][k] = out['probes'].get(k, 0) + v
        for k, v in res.extra.items():
            if isinstance(v, (int, float)):
                out['extra'][k] = out['extra'].get(k, 0) + v
        fps.update(res.fps)
        out['traces'].append([res.trace_fp, res.nontrivial])
        if len(out['digests']) < 3 or spec.get('all_digests'):
            out['digests'][str(index)] = res.digest
            if not spec.get('all_digests'):
                # same-process repeat: same seed must give the same digest
                res2 = engine.execute(prop, config, seed)
                if res2.digest != res.digest:
                    out['nondet'].append({'index': index, 'seed': seed,
                                          'a': res.digest, 'b': res2.digest})
        if len(out['samples']) < 2:
            out['samples'].append({'seed': seed, 'config': config,
                                   'ops': res.ops[:40],
                                   'ops_total': len(res.ops)})
        if res.violation is not None:
            sig = res.violation['sig']
            out['sig_counts'][sig] = out['sig_counts'].get(sig, 0) + 1
            kept = per_sig_kept.get(sig, 0)
            if kept < 2:
                per_sig_kept[sig] = kept + 1
                out['violations'].append({
                    'index': index, 'seed': seed, 'config': config,
                    'ops': res.ops, 'sig': sig,
                    'detail': res.violation.get('detail'),
                    'step': res.violation.get('step'),
                    'digest': res.digest,
                })
    out['wall_s'] = REAL_PERF() - t0
    out['nfps'] = len(fps)
    with open(spec['out'] + '.fps', 'wb') as f:
        array.array('Q', sorted(fps)).tofile(f)
    with open(spec['out'], 'w') as f:
        json.dump(out, f)
    faulthandler.cancel_dump_traceback_later()
    return 0


# --------------------------------------------------------------------------
# parent side

def _spawn(spec, hashseed, workdir, tag):
    spec_path = os.path.join(workdir, 'spec-%s.json' % tag)
    spec = dict(spec)
    spec['out'] = os.path.join(workdir, 'out-%s.json' % tag)
    with open(spec_path, 'w') as f:
        json.dump(spec, f)
    env = dict(os.environ)
    env['PYTHONHASHSEED'] = str(hashseed)
    env['PYTHONPATH'] = VERIF_DIR
    env['TZ'] = 'UTC'
    errf = open(os.path.join(workdir, 'err-%s.txt' % tag), 'w')
    proc = subprocess.Popen(
        [PY, '-m', 'simkit.worker', spec_path],
        cwd=VERIF_DIR, env=env, stdout=errf, stderr=errf)
    return proc, spec, errf


def _collect(proc, spec, errf, timeout):
    try:
        rc = proc.wait(timeout=timeout)
    except subprocess.TimeoutExpired:
        proc.kill()
        proc.wait()
        rc = -9
    errf.close()
    err_text = ''
    try:
        with open(errf.name) as f:
            err_text = f.read()[-4000:]
    except OSError:
        pass
    if rc != 0 or not os.path.exists(spec['out']):
        raise HarnessError('worker failed rc=%s\n%s' % (rc, err_text))
    with open(spec['out']) as f:
        out = json.load(f)
    fps = array.array('Q')
    with open(spec['out'] + '.fps', 'rb') as f:
        data = f.read()
    fps.frombytes(data)
    return out, fps


def run_batch(prop, tier, base_seed):
    """Run the batch of one check.  Returns the exit code."""
    t_start = REAL_PERF()
    engine = get_engine(prop)
    findings = load_findings()
    workdir = tempfile.mkdtemp(prefix='tmverif-batch-', dir='/dev/shm')
    try:
        return _run_batch(prop, tier, base_seed, engine, findings, workdir,
                          t_start)
    finally:
        subprocess.call(['rm', '-rf', workdir])


def _run_batch(prop, tier, base_seed, engine, findings, workdir, t_start):
    nworkers = NWORKERS
    spec = {'prop': prop, 'tier': tier, 'base_seed': base_seed,
            'step': nworkers}
    if tier == 'quick':
        total = int(os.environ.get('VERIF_RUNS', engine.quick_runs(prop)))
        budget = None
        hard = 900
    else:
        total = None
        budget = float(os.environ.get('VERIF_BUDGET_S', '600'))
        hard = budget + 600
        spec['deadline'] = REAL_TIME() + budget
    spec['hard_timeout'] = hard
    procs = []
    for w in range(nworkers):
        s = dict(spec)
        s['start'] = w
        if total is not None:
            s['count'] = (total - w + nworkers - 1) // nworkers
            if s['count'] <= 0:
                continue
        procs.append((w,) + _spawn(s, hashseed_for(base_seed, w), workdir,
                                   'w%d' % w))
    # replays of repaired defects (must stay silent) and of listed known
    # findings (re-executed so that each listed finding is reported on every
    # run, not only when the random search happens to reach it)
    regress_files = []
    for rdir in (REGRESS_DIR, FINDINGS_DIR):
        regress_files.extend(sorted(
            os.path.join(rdir, name) for name in (
                os.listdir(rdir) if os.path.isdir(rdir) else [])
            if name.startswith(prop + '-') and name.endswith('.json')))
    rprocs = []
    by_hs = {}
    for path in regress_files:
        with open(path) as f:
            by_hs.setdefault(json.load(f).get('pythonhashseed', 0),
                             []).append(path)
    for hs in sorted(by_hs):
        rprocs.append(_spawn({'prop': prop, 'mode': 'regress', 'tier': tier,
                              'base_seed': base_seed, 'files': by_hs[hs],
                              'hard_timeout': 900}, hs, workdir,
                             'regress%d' % hs))
    outs = []
    all_fps = set()
    harness_errors = []
    regress_results = []
    for rproc in rprocs:
        try:
            rout, _ = _collect(rproc[0], rproc[1], rproc[2], 960)
            regress_results.extend(rout['regress'])
        except HarnessError as err:
            harness_errors.append(str(err))
    for w, proc, s, errf in procs:
        try:
            out, fps = _collect(proc, s, errf, hard + 60)
        except HarnessError as err:
            harness_errors.append(str(err))
            continue
        out['worker'] = w
        outs.append(out)
        all_fps.update(fps)

    for out in outs:
        for err in out['errors']:
            harness_errors.append('run index %s seed %s:\n%s' % (
                err['index'], err['seed'], err['tb']))
        for nd in out['nondet']:
            harness_errors.append('nondeterminism (same process): %r' % nd)

    # fresh-interpreter determinism sample: re-run up to 3 recorded indices of
    # the first workers under the same hash seed, in another process.
    if not harness_errors:
        checks = []
        for out in outs[:3]:
            idx = sorted(out['digests'], key=int)[:1]
            if idx:
                checks.append((out['worker'], int(idx[0]),
                               out['digests'][idx[0]]))
        dprocs = []
        for w, index, digest in checks:
            s = {'prop': prop, 'tier': tier, 'base_seed': base_seed,
                 'indices': [index], 'all_digests': True,
                 'hard_timeout': 600}
            dprocs.append((index, digest) + _spawn(
                s, hashseed_for(base_seed, w), workdir, 'd%d' % index))
        for index, digest, proc, s, errf in dprocs:
            try:
                out, _fps = _collect(proc, s, errf, 660)
            except HarnessError as err:
                harness_errors.append(str(err))
                continue
            got = out['digests'].get(str(index))
            if got != digest:
                harness_errors.append(
                    'nondeterminism (fresh interpreter): index %d %s != %s'
                    % (index, got, digest))
        ndet = len(dprocs)
    else:
        ndet = 0

    # aggregate
    agg = {'runs': 0, 'steps': 0, 'sim_s': 0.0, 'faults': {}, 'probes': {},
           'sig_counts': {}, 'extra': {}}
    traces = {}
    samples = []
    viols = []
    for out in outs:
        agg['runs'] += out['runs']
        agg['steps'] += out['steps']
        agg['sim_s'] += out['sim_s']
        for key in ('faults', 'probes', 'sig_counts', 'extra'):
            for k, v in out[key].items():
                agg[key][k] = agg[key].get(k, 0) + v
        for fp, nontriv in out['traces']:
            traces[fp] = max(traces.get(fp, 0), nontriv)
        if len(samples) < 3:
            samples.extend(out['samples'][:1])
        viols.extend(out['violations'])
    viols.sort(key=lambda v: v['index'])

    # classify violations
    exit_code = 0
    printed_known = set()
    new_by_sig = {}
    for v in viols:
        entry = match_finding(findings, prop, v['sig'])
        if entry is not None:
            key = entry['signature']
            if key not in printed_known:
                printed_known.add(key)
                print('KNOWN-FINDING: property=%s %s [signature %s, e.g. seed '
                      '%d]' % (prop, entry.get('what', ''), v['sig'],
                               v['seed']))
        else:
            new_by_sig.setdefault(v['sig'], v)

    replay_paths = []
    regress_bad = 0
    for rr in regress_results:
        if rr.get('error'):
            harness_errors.append('regress replay %s:\n%s' % (rr['path'],
                                                              rr['error']))
        elif rr['sig'] is not None:
            entry = match_finding(findings, prop, rr['sig'])
            if entry is not None:
                if entry['signature'] not in printed_known:
                    printed_known.add(entry['signature'])
                    print('KNOWN-FINDING: property=%s %s [signature %s, '
                          'replay %s]' % (prop, entry.get('what', ''),
                                          rr['sig'], rr['path']))
                continue
            regress_bad += 1
            print('VIOLATION property=%s replay=%s' % (prop, rr['path']))
            print('  signature: %s (regression of a repaired defect)' %
                  rr['sig'])
            print('  detail: %s' % (rr.get('detail'),))
            exit_code = 1
    for sig in sorted(new_by_sig):
        v = new_by_sig[sig]
        path = report_violation(engine, prop, v, base_seed)
        replay_paths.append(path)
        print('VIOLATION property=%s replay=%s' % (prop, path))
        print('  signature: %s' % sig)
        print('  detail: %s' % (v.get('detail'),))
        exit_code = 1

    wall = REAL_PERF() - t_start
    unknown_count = sum(n for s, n in agg['sig_counts'].items()
                        if match_finding(findings, prop, s) is None)
    unknown_count += regress_bad
    agg['extra']['regression_replays_run'] = len(regress_results)
    write_evidence(engine, prop, tier, base_seed, agg, traces, all_fps,
                   samples, wall, unknown_count, ndet, printed_known)

    if harness_errors:
        sys.stdout.flush()
        sys.stderr.write('HARNESS ERROR (%d):\n' % len(harness_errors))
        for err in harness_errors[:5]:
            sys.stderr.write(err + '\n')
        # a replayable violation found by other runs stands on its own;
        # without one a harness error is never success
        if exit_code != 1:
            return 2
    stuck = sorted(k for k, v in agg['probes'].items()
                   if v == 0 and k not in engine.irrelevant_probes(prop))
    if stuck:
        # not a verdict on the code under test, but a batch that never
        # reached these branches has not looked where it claims to look
        print('REACH-WARNING property=%s probes stuck at zero: %s' % (
            prop, ', '.join(stuck)))
    print('%s %s: %d runs, %d steps, %.0f simulated s, %d distinct states, '
          '%.1fs wall, exit %d' % (prop, tier, agg['runs'], agg['steps'],
                                   agg['sim_s'], len(all_fps), wall,
                                   exit_code))
    return exit_code


# --------------------------------------------------------------------------
# minimisation / replay files

def _same_failure(engine, prop, config, seed, sig):
    def fails(ops):
        try:
            res = engine.execute(prop, config, seed, ops=ops)
        except Exception:  # pylint: disable=broad-except
            return False
        return res.violation is not None and res.violation['sig'] == sig
    return fails


def report_violation(engine, prop, v, base_seed):
    """Minimise, write the replay file, verify it in a fresh interpreter."""
    config, seed, sig = v['config'], v['seed'], v['sig']
    ops = v['ops']
    fails = _same_failure(engine, prop, config, seed, sig)
    note = ''
    if fails(ops):
        budget = float(os.environ.get('VERIF_MINIMISE_S', '60'))
        ops, ntests = ddminmod.ddmin(ops, fails, budget_s=budget)
        for config2, ops2 in engine.shrink_candidates(config, ops):
            try:
                res = engine.execute(prop, config2, seed, ops=ops2)
            except Exception:  # pylint: disable=broad-except
                continue
            if res.violation is not None and res.violation['sig'] == sig:
                config, ops = config2, ops2
        note = 'minimised with %d test executions' % ntests
    else:
        note = 'recorded op list did not reproduce on direct replay; kept as is'
    res = engine.execute(prop, config, seed, ops=ops, keep_log=True)
    os.makedirs(REPLAY_DIR, exist_ok=True)
    worker = v['index'] % NWORKERS
    doc = {
        'property': prop,
        'engine': engine.name,
        'seed': seed,
        'base_seed': base_seed,
        'run_index': v['index'],
        'pythonhashseed': hashseed_for(base_seed, worker),
        'config': config,
        'ops': ops,
        'signature': sig,
        'detail': (res.violation or v).get('detail'),
        'expected_digest': res.digest,
        'original_ops': len(v['ops']),
        'note': note,
    }
    path = os.path.join(REPLAY_DIR, '%s-%d.json' % (prop, seed))
    with open(path, 'w') as f:
        json.dump(doc, f, indent=1)
    # verify in a fresh interpreter
    rc, text = replay_subprocess(path)
    if rc != 1:
        doc['note'] += '; WARNING fresh-interpreter replay gave rc=%s' % rc
        with open(path, 'w') as f:
            json.dump(doc, f, indent=1)
    return path


def replay_subprocess(path):
    with open(path) as f:
        doc = json.load(f)
    env = dict(os.environ)
    env['PYTHONHASHSEED'] = str(doc['pythonhashseed'])
    env['PYTHONPATH'] = VERIF_DIR
    env['VERIF_REPLAY_CHILD'] = '1'
    proc = subprocess.run([PY, os.path.join(VERIF_DIR, 'vcheck'),
                           doc['property'], '--replay', path],
                          cwd=VERIF_DIR, env=env, stdout=subprocess.PIPE,
                          stderr=subprocess.STDOUT, timeout=600)
    return proc.returncode, proc.stdout.decode('utf-8', 'replace')


def replay_main(prop, path):
    """Replay a file.  Exit 1 + VIOLATION line if it reproduces."""
    with open(path) as f:
        doc = json.load(f)
    want = str(doc['pythonhashseed'])
    if os.environ.get('PYTHONHASHSEED') != want:
        env = dict(os.environ)
        env['PYTHONHASHSEED'] = want
        env['PYTHONPATH'] = VERIF_DIR
        os.execve(PY, [PY, os.path.join(VERIF_DIR, 'vcheck'), prop,
                       '--replay', path], env)
    engine = get_engine(doc['property'])
    res = engine.execute(doc['property'], doc['config'], doc['seed'],
                         ops=doc['ops'], keep_log=True)
    if os.environ.get('VERIF_REPLAY_LOG'):
        for line in res.log_lines or []:
            print(line)
    if res.violation is None:
        print('replay: no violation (signature expected: %s)' % doc['signature'])
        return 0
    same = (res.violation['sig'] == doc['signature'])
    dig = (res.digest == doc.get('expected_digest'))
    print('VIOLATION property=%s replay=%s' % (doc['property'], path))
    print('  signature: %s%s' % (res.violation['sig'],
                                 '' if same else ' (file says %s)'
                                 % doc['signature']))
    print('  digest %s' % ('matches' if dig else 'DIFFERS from recorded'))
    print('  detail: %s' % (res.violation.get('detail'),))
    return 1


# --------------------------------------------------------------------------
# evidence

def write_evidence(engine, prop, tier, base_seed, agg, traces, all_fps,
                   samples, wall, unknown_count, ndet, known_sigs):
    os.makedirs(EVIDENCE_DIR, exist_ok=True)
    runs = agg['runs']
    distinct_traces = len(traces)
    nontrivial = sum(1 for _fp, n in traces.items() if n > 0)
    hours = max(wall, 1e-9) / 3600.0
    doc = {
        'property_id': prop,
        'tier': tier,
        'seed': base_seed,
        'level': engine.level(prop),
        'coverage': {
            'evaluations': runs,
            'distinct_nontrivial': nontrivial,
            'rule': engine.rule(prop),
            'samples': samples,
            'distinct_traces': distinct_traces,
            'distinct_abstract_states': len(all_fps),
            'ops_executed': agg['steps'],
            'simulated_seconds': round(agg['sim_s'], 3),
            'runs_per_hour': int(runs / hours),
            'seeds_per_hour': int(runs / hours),
            'fault_kinds_fired': agg['faults'],
            'reach_probes': agg['probes'],
            'probes_stuck_at_zero': sorted(
                k for k, v in agg['probes'].items()
                if v == 0 and k not in engine.irrelevant_probes(prop)),
            'extra_counters': agg['extra'],
            'violation_signatures_seen': agg['sig_counts'],
            'known_finding_signatures_matched': sorted(known_sigs),
            'determinism_recheck_fresh_interpreter': ndet,
            'seed_derivation': "run i uses mix('run', VERIF_SEED, property, i)"
                               "; worker w runs under PYTHONHASHSEED "
                               "mix('hashseed', VERIF_SEED, w)",
            'real_components': list(engine.real_components),
            'stub_components': list(engine.stub_components),
            'workers': NWORKERS,
            'repo': REPO,
        },
        'assumptions': engine.assumptions(prop),
        'wall_s': round(wall, 3),
        'violations': unknown_count,
    }
    path = os.path.join(EVIDENCE_DIR, '%s.json' % prop)
    with open(path, 'w') as f:
        json.dump(doc, f, indent=1, sort_keys=True)
    return path
