"""Engine registry: property id -> engine instance (imported lazily)."""

import importlib

_PROP_ENGINE = {
    'C01': 'cellsim', 'C02': 'cellsim', 'C03': 'cellsim', 'C04': 'cellsim',
    'C05': 'cellsim', 'C06': 'cellsim', 'C07': 'cellsim', 'C08': 'cellsim',
    'C09': 'mastersim', 'C10': 'mastersim', 'C11': 'mastersim',
    'C12': 'cachesim', 'C13': 'nodesim',
    'C14': 'netsim', 'C16': 'netsim',
    'C17': 'presencesim',
    'C18': 'tracesim',
    'C19': 'allocsim',
    'C20': 'monitorsim',
}


# properties additionally explored at master level (the ZooKeeper -> model
# path: Loader parsing, reload_server, restore_placement, fail-over)
_MULTI = {'C02': 0.2, 'C01': 0.2, 'C03': 0.2, 'C04': 0.15, 'C05': 0.2, 'C06': 0.15,
          'C07': 0.15,
          'C08': 0.2}
_CACHE = {}


def engine_for(prop):
    if prop in _CACHE:
        return _CACHE[prop]
    mod = importlib.import_module('engines.' + _PROP_ENGINE[prop])
    eng = mod.ENGINE
    if prop in _MULTI:
        from simkit import multi
        master = importlib.import_module('engines.mastersim').ENGINE
        eng = multi.MultiEngine('cellsim+mastersim', [
            (1.0 - _MULTI[prop], eng), (_MULTI[prop], master)])
    _CACHE[prop] = eng
    return eng
