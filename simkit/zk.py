"""In-memory single-copy ZooKeeper (DESIGN.md 2.3).

SimZk is the server: znode tree, stats, sessions, ephemeral and sequence
nodes, one-shot watches, session expiry, an op log of every mutating call.
SimZkClient offers the kazoo surface Treadmill uses and raises the real
kazoo exceptions; the real kazoo ChildrenWatch / DataWatch recipe classes are
bound to it.  Watch events are queued per session and delivered in order per
session; *when* is the simulator's decision (SimZk.deliver).
"""

import collections
import threading

import kazoo.exceptions as kexc
from kazoo.protocol.states import (EventType, KazooState, KeeperState,
                                   WatchedEvent, ZnodeStat)
from kazoo.recipe.watchers import ChildrenWatch, DataWatch

from . import SimCrash, HarnessError
from . import rng as rngmod


class _Node:
    __slots__ = ('data', 'czxid', 'mzxid', 'pzxid', 'ctime', 'mtime',
                 'version', 'cversion', 'aversion', 'owner', 'children',
                 'seq', 'acl')

    def __init__(self, data, zxid, now_ms, owner):
        self.data = data
        self.czxid = self.mzxid = self.pzxid = zxid
        self.ctime = self.mtime = now_ms
        self.version = 0
        self.cversion = 0
        self.aversion = 0
        self.owner = owner        # session id for ephemerals, else 0
        self.children = set()
        self.seq = 0
        self.acl = None

    def stat(self):
        return ZnodeStat(self.czxid, self.mzxid, self.ctime, self.mtime,
                         self.version, self.cversion, self.aversion,
                         self.owner, len(self.data), len(self.children),
                         self.pzxid)


def _parent(path):
    if path == '/':
        return None
    idx = path.rfind('/')
    return path[:idx] if idx > 0 else '/'


def _norm(path):
    if not path.startswith('/'):
        path = '/' + path
    while '//' in path:
        path = path.replace('//', '/')
    if len(path) > 1 and path.endswith('/'):
        path = path[:-1]
    return path


class Session:
    __slots__ = ('sid', 'queue', 'alive', 'client', 'name')

    def __init__(self, sid, name):
        self.sid = sid
        self.name = name
        self.queue = collections.deque()
        self.alive = True
        self.client = None


class SimZk:
    """The server."""

    def __init__(self, clock, log=None):
        self.clock = clock
        self.log = log
        self.zxid = 0
        self.nodes = {'/': _Node(b'', 0, self._now_ms(), 0)}
        self.sessions = {}
        self.next_sid = 100
        self.data_watches = {}    # path -> [(sid, callback)]
        self.child_watches = {}
        self.oplog = []           # (seq, sid, op, path, owner_before, extra)
        self.stats = collections.Counter()
        # ZooKeeper promises no order for the children it returns.  None:
        # sorted by name (the default); an integer: a fixed arbitrary order
        # per (path, child), a function of this per-run parameter only.
        self.order_seed = None
        self._order_keys = {}

    def child_order(self, path, names, sid=0):
        """The order in which get_children returns `names` of `path` to
        session `sid`.  ZooKeeper promises none: with an order seed every
        session sees its own arbitrary (but stable) order, so a restarted
        process may be shown the same children in another order."""
        names = sorted(names)
        if self.order_seed is None:
            return names
        keys = self._order_keys
        seed = self.order_seed

        def key(name):
            k = keys.get((sid, path, name))
            if k is None:
                k = keys[(sid, path, name)] = rngmod.mix(seed, sid, path,
                                                         name)
            return k
        names.sort(key=key)
        return names

    def _now_ms(self):
        return int(self.clock.peek() * 1000)

    # -- sessions
    def connect(self, name=None):
        sid = self.next_sid
        self.next_sid += 1
        sess = Session(sid, name or 'session%d' % sid)
        self.sessions[sid] = sess
        client = SimZkClient(self, sess)
        sess.client = client
        return client

    def expire(self, sid):
        """Session expiry: ephemerals vanish (watches fire), client is LOST."""
        sess = self.sessions.get(sid)
        if sess is None or not sess.alive:
            return False
        sess.alive = False
        sess.queue.clear()
        for watches in (self.data_watches, self.child_watches):
            for path in list(watches):
                watches[path] = [w for w in watches[path] if w[0] != sid]
                if not watches[path]:
                    del watches[path]
        owned = sorted((p for p, n in self.nodes.items() if n.owner == sid),
                       key=lambda p: (-p.count('/'), p))
        for path in owned:
            self._delete_node(path, sid=0, why='expire')
        self.stats['session_expired'] += 1
        client = sess.client
        if client is not None:
            client._lost()
        return True

    def flap(self, sid):
        """The connection of a session drops and comes back before the
        session times out (the session survives, ephemerals stay), as the
        kazoo client reports it (kazoo/client.py _session_callback):

        * the state listeners see SUSPENDED;
        * the client forgets every watch callback registered through it and
          calls each of them once with an event of type NONE
          (_reset_watchers).  The watches stay set on the server, but what
          the server sends for them later finds no callback in the client,
          unless a recipe registers its callback again (one watch per
          session and path on the server, a set of callbacks in the client):
          here the session's entries leave the watch tables and come back
          with the next get/exists/get_children that passes the callback;
        * the state listeners see CONNECTED.

        Watch events already queued for the session stay queued (they had
        reached the client).  The NONE events and whatever the listeners
        spawn are queued behind them: when they run is the simulator's
        decision (deliver).  Nothing can happen between the two state
        changes: the connection was down between two calls of the process.

        Returns the number of watch callbacks reset; None (and nothing
        happens) when there is no such live session."""
        sess = self.sessions.get(sid)
        if sess is None or not sess.alive or sess.client is None:
            return None
        client = sess.client
        self.stats['connection_flap'] += 1
        client._state_change(KazooState.SUSPENDED)
        callbacks = []
        for table in (self.child_watches, self.data_watches):
            for path in sorted(table):
                keep = []
                mine = []            # (a set per path in the client)
                for entry in table[path]:
                    if entry[0] != sid:
                        keep.append(entry)
                    elif not any(entry[1] == cb for cb in mine):
                        mine.append(entry[1])
                callbacks.extend(mine)
                if keep:
                    table[path] = keep
                else:
                    del table[path]
        event = WatchedEvent(EventType.NONE, KeeperState.CONNECTING, None)
        for callback in callbacks:
            sess.queue.append((callback, event))
        client._state_change(KazooState.CONNECTED)
        return len(callbacks)

    # -- tree primitives (server side, no permission model)
    def _bump(self):
        self.zxid += 1
        return self.zxid

    def _fire(self, table, path, etype):
        watchers = table.pop(path, None)
        if not watchers:
            return
        for sid, callback in watchers:
            sess = self.sessions.get(sid)
            if sess is None or not sess.alive:
                continue
            sess.queue.append((callback,
                               WatchedEvent(etype, KeeperState.CONNECTED,
                                            path)))

    def _record(self, sid, op, path, owner_before, extra=None):
        self.oplog.append((len(self.oplog), sid, op, path, owner_before,
                           extra))

    def _create_node(self, path, data, sid, ephemeral):
        parent = _parent(path)
        pnode = self.nodes[parent]
        zxid = self._bump()
        node = _Node(data, zxid, self._now_ms(), sid if ephemeral else 0)
        self.nodes[path] = node
        pnode.children.add(path[path.rfind('/') + 1:])
        pnode.cversion += 1
        pnode.pzxid = zxid
        self._record(sid, 'create', path, None,
                     {'ephemeral': bool(ephemeral)})
        self._fire(self.data_watches, path, EventType.CREATED)
        self._fire(self.child_watches, parent, EventType.CHILD)

    def _delete_node(self, path, sid, why='delete'):
        node = self.nodes[path]
        parent = _parent(path)
        pnode = self.nodes[parent]
        zxid = self._bump()
        del self.nodes[path]
        pnode.children.discard(path[path.rfind('/') + 1:])
        pnode.cversion += 1
        pnode.pzxid = zxid
        self._record(sid, why, path, node.owner, None)
        self._fire(self.data_watches, path, EventType.DELETED)
        self._fire(self.child_watches, path, EventType.DELETED)
        self._fire(self.child_watches, parent, EventType.CHILD)

    def _set_node(self, path, data, sid):
        node = self.nodes[path]
        zxid = self._bump()
        owner = node.owner
        node.data = data
        node.mzxid = zxid
        node.mtime = self._now_ms()
        node.version += 1
        self._record(sid, 'set', path, owner, None)
        self._fire(self.data_watches, path, EventType.CHANGED)

    # -- event delivery (the simulator decides when)
    def pending(self, sid=None):
        if sid is not None:
            sess = self.sessions.get(sid)
            return len(sess.queue) if sess and sess.alive else 0
        return sum(len(s.queue) for s in self.sessions.values() if s.alive)

    def sessions_with_events(self):
        return sorted(sid for sid, s in self.sessions.items()
                      if s.alive and s.queue)

    def deliver(self, sid, count=1):
        """Deliver up to `count` queued watch events of one session."""
        sess = self.sessions.get(sid)
        done = 0
        while sess is not None and sess.alive and sess.queue and done < count:
            callback, event = sess.queue.popleft()
            done += 1
            self.stats['events_delivered'] += 1
            callback(event)
        return done

    def deliver_all(self, limit=10000):
        """Deliver everything, sessions in id order, until quiescent."""
        n = 0
        while n < limit:
            sids = self.sessions_with_events()
            if not sids:
                return n
            for sid in sids:
                n += self.deliver(sid, 1)
        raise HarnessError('watch delivery does not quiesce')

    # -- inspection for oracles
    def dump(self, root='/'):
        """path -> (data, owner) for the subtree, sorted."""
        root = _norm(root)
        out = {}
        prefix = root if root.endswith('/') else root + '/'
        for path in sorted(self.nodes):
            if path == root or path.startswith(prefix):
                node = self.nodes[path]
                out[path] = (node.data, node.owner)
        return out

    def children(self, path):
        node = self.nodes.get(_norm(path))
        return sorted(node.children) if node else None

    def clone_tree(self, clock=None):
        """A copy of the durable state (no sessions, no watches): what a
        freshly started process would find.  Ephemeral nodes are kept with
        their owners (their sessions live on in the original)."""
        other = SimZk(clock or self.clock, self.log)
        other.order_seed = self.order_seed
        other.zxid = self.zxid
        other.nodes = {}
        for path, node in self.nodes.items():
            cp = _Node(node.data, node.czxid, node.ctime, node.owner)
            cp.mzxid, cp.pzxid, cp.mtime = node.mzxid, node.pzxid, node.mtime
            cp.version, cp.cversion = node.version, node.cversion
            cp.children = set(node.children)
            cp.seq = node.seq
            other.nodes[path] = cp
        other.next_sid = self.next_sid + 1000
        return other


class _Handler:
    """Replaces kazoo's threading handler (single-threaded simulation)."""

    def __init__(self, client):
        self._client = client

    def lock_object(self):
        return threading.Lock()

    def rlock_object(self):
        return threading.RLock()

    def event_object(self):
        return SimEvent(self._client)

    def sleep_func(self, seconds):
        import time
        time.sleep(seconds)

    def spawn(self, func, *args, **kwargs):
        # run at the next delivery point of this session
        self._client._session.queue.append(
            (lambda _ev: func(*args, **kwargs), None))


class SimEvent:
    """threading.Event look-alike whose wait() lets the simulation run."""

    def __init__(self, client):
        self._client = client
        self._flag = False

    def set(self):
        self._flag = True

    def clear(self):
        self._flag = False

    def is_set(self):
        return self._flag

    isSet = is_set

    def wait(self, timeout=None):
        if self._flag:
            return True
        pump = self._client.pump
        if pump is not None:
            pump(self, timeout)
        else:
            # default: deliver this session's own queued events
            server = self._client._server
            sid = self._client._session.sid
            guard = 0
            while not self._flag and server.pending(sid) and guard < 10000:
                server.deliver(sid, 1)
                guard += 1
            if not self._flag and timeout:
                server.clock.advance(timeout)
        return self._flag


class SimZkClient:
    """The kazoo surface Treadmill uses, on top of SimZk."""

    def __init__(self, server, session):
        self._server = server
        self._session = session
        self.handler = _Handler(self)
        self.state = KazooState.CONNECTED
        self._listeners = []
        self.pump = None
        self.call_hook = None      # called before every ZooKeeper call
        self.nwrites = 0
        self.fault_plan = None     # {'at': k, 'kind': 'crash'|'conn_loss',
        #                             'applied': bool}
        self.fired = []
        self.retry = self._retry

    # -- ACL helpers borrowed from the real client (no permission model)
    def make_anonymous_acl(self, perm):
        return ('anon', perm)

    def make_user_acl(self, user, perm):
        return ('user', user, perm)

    def make_host_acl(self, host, perm):
        return ('host', host, perm)

    def make_role_acl(self, role, perm):
        return ('role', role, perm)

    def make_self_acl(self, perm):
        return ('self', perm)

    def make_default_acl(self, acls):
        return list(acls) if acls else []

    def make_servers_acl(self):
        return ('role', 'servers', 'rwcda')

    def make_servers_del_acl(self):
        return ('role', 'servers', 'd')

    # -- life cycle
    @property
    def client_id(self):
        return (self._session.sid, b'')

    @property
    def connected(self):
        return self._session.alive

    def start(self, timeout=None):
        return None

    def stop(self):
        return None

    def close(self):
        return None

    def add_listener(self, listener):
        if listener not in self._listeners:
            self._listeners.append(listener)

    def remove_listener(self, listener):
        if listener in self._listeners:
            self._listeners.remove(listener)

    def _lost(self):
        self.state = KazooState.LOST
        for listener in list(self._listeners):
            listener(KazooState.LOST)

    def _state_change(self, state):
        """kazoo/client.py _make_state_change (used by SimZk.flap)."""
        if self.state == state:
            return
        self.state = state
        for listener in list(self._listeners):
            if listener(state) is True:
                self.remove_listener(listener)

    def _retry(self, func, *args, **kwargs):
        return func(*args, **kwargs)

    def _check(self, path=None):
        hook = self.call_hook
        if hook is not None:
            # a pre-emption point: another actor may act before this call
            hook(path)
        if not self._session.alive:
            raise kexc.SessionExpiredError()

    def _mutating(self, apply):
        """Run one mutating call under the fault plan."""
        self._check()
        self.nwrites += 1
        plan = self.fault_plan
        if plan is not None and plan['at'] == self.nwrites:
            self.fault_plan = None
            self.fired.append(plan)
            self._server.stats['fault_' + plan['kind']] += 1
            if plan.get('applied'):
                try:
                    apply()
                except kexc.KazooException:
                    pass
            if plan['kind'] == 'crash':
                raise SimCrash('crash at write %d (%s)' % (
                    self.nwrites, 'applied' if plan.get('applied')
                    else 'not applied'))
            raise kexc.ConnectionLoss()
        return apply()

    # -- reads
    def exists(self, path, watch=None):
        self._check(path)
        path = _norm(path)
        node = self._server.nodes.get(path)
        if watch is not None:
            self._server.data_watches.setdefault(path, []).append(
                (self._session.sid, watch))
        return node.stat() if node is not None else None

    def get(self, path, watch=None):
        self._check(path)
        path = _norm(path)
        node = self._server.nodes.get(path)
        if node is None:
            raise kexc.NoNodeError()
        if watch is not None:
            self._server.data_watches.setdefault(path, []).append(
                (self._session.sid, watch))
        return node.data, node.stat()

    def get_children(self, path, watch=None, include_data=False):
        self._check(path)
        path = _norm(path)
        node = self._server.nodes.get(path)
        if node is None:
            raise kexc.NoNodeError()
        if watch is not None:
            self._server.child_watches.setdefault(path, []).append(
                (self._session.sid, watch))
        children = self._server.child_order(path, node.children,
                                            self._session.sid)
        if include_data:
            return children, node.stat()
        return children

    def get_acls(self, path):
        self._check()
        node = self._server.nodes.get(_norm(path))
        if node is None:
            raise kexc.NoNodeError()
        return node.acl or [], node.stat()

    # -- writes
    def create(self, path, value=b'', acl=None, ephemeral=False,
               sequence=False, makepath=False, include_data=False):
        if value is None:
            value = b''
        if isinstance(value, str):
            value = value.encode()
        trailing = bool(sequence and path.endswith('/') and len(path) > 1)
        base = _norm(path)
        if trailing:
            parent = base
            prefix = base + '/'
        else:
            parent = _parent(base)
            prefix = base
        server = self._server
        sid = self._session.sid

        def apply():
            if parent is None:
                raise kexc.NodeExistsError()
            if parent not in server.nodes:
                if not makepath:
                    raise kexc.NoNodeError()
                self._ensure(parent)
            pnode = server.nodes[parent]
            if pnode.owner:
                raise kexc.NoChildrenForEphemeralsError()
            real = prefix
            if sequence:
                real = '%s%010d' % (prefix, pnode.seq)
                pnode.seq += 1
            if real in server.nodes:
                raise kexc.NodeExistsError()
            server._create_node(real, value, sid, ephemeral)
            server.nodes[real].acl = acl
            return real

        real = self._mutating(apply)
        if include_data:
            return real, server.nodes[real].stat()
        return real

    def _ensure(self, path):
        server = self._server
        if path in server.nodes:
            return
        parent = _parent(path)
        if parent is not None and parent not in server.nodes:
            self._ensure(parent)
        server._create_node(path, b'', self._session.sid, False)

    def ensure_path(self, path, acl=None):
        path = _norm(path)

        def apply():
            self._ensure(path)
            return True
        if path in self._server.nodes:
            self._check()
            return True
        return self._mutating(apply)

    def set(self, path, value, version=-1):
        if isinstance(value, str):
            value = value.encode()
        path = _norm(path)
        server = self._server

        def apply():
            node = server.nodes.get(path)
            if node is None:
                raise kexc.NoNodeError()
            if version != -1 and node.version != version:
                raise kexc.BadVersionError()
            server._set_node(path, value, self._session.sid)
            return node.stat()
        return self._mutating(apply)

    def set_acls(self, path, acls, version=-1):
        # no permission model: not counted as a write (no fault point)
        self._check()
        node = self._server.nodes.get(_norm(path))
        if node is None:
            raise kexc.NoNodeError()
        node.acl = acls
        node.aversion += 1
        return node.stat()

    def delete(self, path, version=-1, recursive=False):
        path = _norm(path)
        server = self._server

        def apply():
            node = server.nodes.get(path)
            if node is None:
                raise kexc.NoNodeError()
            if version != -1 and node.version != version:
                raise kexc.BadVersionError()
            if node.children:
                if not recursive:
                    raise kexc.NotEmptyError()
                for child in sorted(node.children):
                    self._delete_tree(path.rstrip('/') + '/' + child)
            server._delete_node(path, self._session.sid)
            return True
        return self._mutating(apply)

    def _delete_tree(self, path):
        node = self._server.nodes.get(path)
        if node is None:
            return
        for child in sorted(node.children):
            self._delete_tree(path + '/' + child)
        self._server._delete_node(path, self._session.sid)

    # -- recipes (the real kazoo classes)
    def ChildrenWatch(self, path, func=None, allow_session_lost=True,
                      send_event=False):
        return ChildrenWatch(self, path, func,
                             allow_session_lost=allow_session_lost,
                             send_event=send_event)

    def DataWatch(self, path, func=None, *args, **kwargs):
        return DataWatch(self, path, func, *args, **kwargs)
