"""Oracles of C13 (nodesim).

Ground truth is what the harness itself declared and observed at the seams:

* ``cache``:      instance -> dict(gen, ver, bad, ctime_us, ino) - what the
                  cache writer put into cache/ (generation numbers are the
                  harness's own, they do not depend on the unique-id formula);
* ``containers``: container directory name -> dict(inst, gen, configures,
                  finished, had_running, failed) - recorded by the wrapper
                  around ``configure()`` (which instance/generation the event
                  file belonged to when the directory was made);
* the links themselves, read from running/ and cleanup/ with the real ``os``.

Nothing of the manager's own bookkeeping is consulted.  Every function
returns ``None`` or ``(sig, detail)``; signatures carry no instance values.
"""

import os

MARKERS = ('exitinfo', 'aborted', 'oom')
_KIND_ORDER = {'running': 0, 'cleanup': 1}


def read_links(running_dir, cleanup_dir, apps_dir):
    """{(kind, link name): container name} for every symlink in both dirs.

    A target outside apps/ is kept as the raw link text (never expected)."""
    out = {}
    for kind, path in (('running', running_dir), ('cleanup', cleanup_dir)):
        try:
            names = sorted(os.listdir(path))
        except FileNotFoundError:
            continue
        for name in names:
            if name.startswith('.'):
                # s6-svscan, glob('*') and Cleanup all skip dot names (a
                # left-over temporary link of fs.symlink_safe)
                continue
            full = os.path.join(path, name)
            try:
                target = os.readlink(full)
            except OSError:
                continue          # not a link
            if os.path.dirname(target) == apps_dir:
                target = os.path.basename(target)
            out[(kind, name)] = target
    return out


def markers(apps_dir, cname):
    """Which of exitinfo / aborted / oom exist in the container."""
    data = os.path.join(apps_dir, cname, 'data')
    return [m for m in MARKERS if os.path.exists(os.path.join(data, m))]


def is_terminated(apps_dir, cname):
    return os.path.exists(os.path.join(apps_dir, cname, 'data',
                                       'terminated'))


def container_exists(apps_dir, cname):
    return os.path.isdir(os.path.join(apps_dir, cname))


# -- after every handler call ------------------------------------------------

def two_links(links, apps_dir):
    """A configured container is the target of at most one link."""
    by_target = {}
    for (kind, name), target in sorted(links.items()):
        by_target.setdefault(target, []).append((kind, name))
    for target in sorted(by_target):
        refs = by_target[target]
        if len(refs) < 2 or not container_exists(apps_dir, target):
            continue
        kinds = sorted((k for k, _n in refs), key=_KIND_ORDER.get)
        return ('C13:container-two-links:' + '+'.join(kinds[:2]),
                'container %s is the target of %d links: %s' % (
                    target, len(refs),
                    ', '.join('%s/%s' % r for r in refs)))
    return None


def finished_restarted(old, new, apps_dir):
    """No running link is created onto a container that already holds
    exitinfo / aborted / oom."""
    for (kind, name), target in sorted(new.items()):
        if kind != 'running' or old.get((kind, name)) == target:
            continue
        found = markers(apps_dir, target)
        if found:
            return ('C13:finished-container-restarted',
                    'running/%s was created onto container %s in which %s '
                    'already exists' % (name, target, '/'.join(found)))
    return None


# -- after a synchronisation ---------------------------------------------------

def _gen_finished(containers, inst, gen):
    for rec in containers.values():
        if rec['inst'] == inst and rec['gen'] == gen and rec['finished']:
            return True
    return False


def _gen_failed(containers, failed, inst, gen):
    return (inst, gen) in failed


def follow(links, cache, containers, failed, when):
    """running/ corresponds to the cached manifests that can be configured.

    ``failed``: set of (inst, gen) for which an injected configure failure
    fired (the manager is expected to drop such a cache entry)."""
    running = {name: target for (kind, name), target in links.items()
               if kind == 'running'}
    for inst in sorted(running):
        target = running[inst]
        rec = containers.get(target)
        ent = cache.get(inst)
        if ent is None:
            return ('C13:running-not-matching-cache:extra:' + when,
                    'running/%s -> %s but the cache has no entry for %s' % (
                        inst, target, inst))
        if rec is None or rec['inst'] != inst or rec['gen'] != ent['gen']:
            return ('C13:running-not-matching-cache:extra:' + when,
                    'running/%s -> %s (generation %s) but cache/%s is '
                    'generation %s' % (inst, target,
                                       rec['gen'] if rec else '?', inst,
                                       ent['gen']))
    for inst in sorted(cache):
        ent = cache[inst]
        if ent['bad'] or inst in running:
            continue
        if _gen_finished(containers, inst, ent['gen']):
            continue      # finished on its own: must not run again
        if _gen_failed(containers, failed, inst, ent['gen']):
            return ('C13:running-not-matching-cache:'
                    'missing-after-failed-configure:' + when,
                    'configure of cache/%s (generation %s) failed, the entry '
                    'is still cached and not running' % (inst, ent['gen']))
        clash = containers.get(ent.get('uname'))
        if clash is not None and clash['gen'] != ent['gen']:
            return ('C13:running-not-matching-cache:missing:'
                    'unique-name-collision:' + when,
                    'cache/%s (generation %s) is not running; the unique '
                    'name %s its (ctime, inode) give is the name of the '
                    'container of generation %s' % (
                        inst, ent['gen'], ent['uname'], clash['gen']))
        return ('C13:running-not-matching-cache:missing:' + when,
                'cache/%s (generation %s) can be configured and never '
                'finished, but there is no running/%s' % (
                    inst, ent['gen'], inst))
    return None


def uncleaned(links, cache, containers, apps_dir, only_previously_running,
              when):
    """A container whose cache entry is gone (or belongs to a newer
    generation) is in cleanup or already removed."""
    in_cleanup = {target for (kind, _n), target in links.items()
                  if kind == 'cleanup'}
    in_running = {target for (kind, _n), target in links.items()
                  if kind == 'running'}
    for cname in sorted(containers):
        rec = containers[cname]
        if only_previously_running and not rec['had_running']:
            continue
        if not container_exists(apps_dir, cname):
            continue
        ent = cache.get(rec['inst'])
        if ent is not None and ent['gen'] == rec['gen']:
            continue
        if cname in in_cleanup or cname in in_running:
            continue      # a running one is reported as 'extra'
        origin = 'after-failed-configure:' if rec['failed'] else ''
        return ('C13:uncached-container-not-cleaned:' + origin + when,
                'container %s (instance %s generation %s) exists, its cache '
                'entry is %s, and no cleanup link points to it' % (
                    cname, rec['inst'], rec['gen'],
                    'gone' if ent is None else
                    'generation %s' % ent['gen']))
    return None


def unchanged_set(links, cache, containers, apps_dir):
    """Running containers whose manifest is the cached one and that are not
    finished: {inst: (container, configure count, cache version)}."""
    out = {}
    for (kind, inst), target in sorted(links.items()):
        if kind != 'running':
            continue
        rec = containers.get(target)
        ent = cache.get(inst)
        if rec is None or ent is None:
            continue
        if rec['inst'] != inst or rec['gen'] != ent['gen']:
            continue
        if rec['finished'] or markers(apps_dir, target):
            continue
        if is_terminated(apps_dir, target):
            continue
        out[inst] = (target, rec['configures'], ent['ver'])
    return out


def disturbed(unchanged, links, cache, containers, apps_dir, when):
    """Every member of `unchanged` whose cache entry is still the same and
    that did not finish meanwhile is still running, untouched."""
    for inst in sorted(unchanged):
        target, configures, ver = unchanged[inst]
        ent = cache.get(inst)
        if ent is None or ent['ver'] != ver:
            continue
        rec = containers[target]
        if rec['finished'] or markers(apps_dir, target):
            continue
        now = links.get(('running', inst))
        if now != target:
            where = sorted('%s/%s' % k for k, t in links.items()
                           if t == target)
            return ('C13:unchanged-container-disturbed:' + when,
                    'container %s of unchanged cache/%s was running and is '
                    'not any more (running/%s -> %s; links to it now: %s)' % (
                        target, inst, inst, now, where or 'none'))
        if is_terminated(apps_dir, target):
            return ('C13:unchanged-container-disturbed:' + when,
                    'container %s of unchanged cache/%s was marked '
                    'terminated' % (target, inst))
        if rec['configures'] != configures:
            return ('C13:unchanged-container-disturbed:' + when,
                    'container %s of unchanged cache/%s was configured '
                    'again (%d -> %d calls)' % (target, inst, configures,
                                                rec['configures']))
    return None
