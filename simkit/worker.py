"""Worker process entry point: python -m simkit.worker <spec.json>."""

import sys

import simkit  # noqa: F401  (pins TZ and sys.path)
from simkit import runner

if __name__ == '__main__':
    simkit.quiet_logging()
    sys.exit(runner.worker_main(sys.argv[1]))
