"""Engine registry: property id -> engine instance (imported lazily)."""

import importlib

_PROP_ENGINE = {
    'C01': 'cellsim', 'C02': 'cellsim', 'C03': 'cellsim', 'C04': 'cellsim',
    'C05': 'cellsim', 'C06': 'cellsim', 'C07': 'cellsim', 'C08': 'cellsim',
    'C09': 'mastersim', 'C10': 'mastersim', 'C11': 'mastersim',
    'C12': 'cachesim', 'C13': 'nodesim',
    'C14': 'netsim', 'C16': 'netsim',
    'C17': 'presencesim',
    'C18': 'tracesim',
    'C19': 'allocsim',
    'C20': 'monitorsim',
}


def engine_for(prop):
    mod = importlib.import_module('engines.' + _PROP_ENGINE[prop])
    return mod.ENGINE
