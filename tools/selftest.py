"""Self-tests of the machinery (DESIGN.md section 7).

./vcheck selftest determinism [Cxx ...] [--seeds N]
    For each property: N run indices are executed twice each in fresh
    interpreters under the same (seed, PYTHONHASHSEED), at two worker counts
    (the split of indices over processes differs) and in reverse order; the
    event-log digests must match.  Additionally the same indices are run
    under a *different* PYTHONHASHSEED and the number of digests that differ
    is reported (informational: set-iteration order inside the repo is part
    of the seed by design; a property whose runs never depend on it reports
    0).  Exit 0 = deterministic, 2 = mismatch.
"""

import json
import os
import subprocess
import sys
import tempfile

HERE = os.path.dirname(os.path.abspath(__file__))
VERIF = os.path.dirname(HERE)
sys.path.insert(0, VERIF)

from simkit import runner  # noqa: E402
import engines  # noqa: E402


def _digests(prop, indices, hashseed, workdir, tag, tier='quick'):
    spec = {'prop': prop, 'tier': tier, 'base_seed': 0,
            'indices': list(indices), 'all_digests': True,
            'hard_timeout': 1200}
    proc, spec, errf = runner._spawn(spec, hashseed, workdir, tag)
    return proc, spec, errf


def determinism(props, nseeds):
    workdir = tempfile.mkdtemp(prefix='tmverif-selftest-', dir='/dev/shm')
    bad = 0
    try:
        for prop in props:
            idx = list(range(nseeds))
            hs = runner.hashseed_for(0, 0)
            jobs = []
            # A: one process, ascending.  B: two processes (even/odd),
            # descending.  C: other hash seed.
            jobs.append(('A', _digests(prop, idx, hs, workdir, prop + 'A')))
            jobs.append(('B0', _digests(prop, list(reversed(idx[0::2])), hs,
                                        workdir, prop + 'B0')))
            jobs.append(('B1', _digests(prop, list(reversed(idx[1::2])), hs,
                                        workdir, prop + 'B1')))
            jobs.append(('C', _digests(prop, idx, hs + 1, workdir,
                                       prop + 'C')))
            res = {}
            for tag, (proc, spec, errf) in jobs:
                out, _fps = runner._collect(proc, spec, errf, 1300)
                if out['errors']:
                    print('%s: harness error in %s: %s' % (
                        prop, tag, out['errors'][0]['tb'][-400:]))
                    bad += 1
                res[tag] = out['digests']
            merged = dict(res['B0'])
            merged.update(res['B1'])
            mism = [i for i in res['A'] if res['A'][i] != merged.get(i)]
            differ = sum(1 for i in res['A'] if res['A'][i] != res['C'].get(i))
            status = 'OK' if not mism else 'MISMATCH %s' % mism[:5]
            print('%s determinism: %d indices x 2 fresh interpreters, two '
                  'process splits, reversed order: %s; digests that change '
                  'under another PYTHONHASHSEED: %d/%d' % (
                      prop, len(res['A']), status, differ, len(res['A'])))
            if mism:
                bad += 1
    finally:
        subprocess.call(['rm', '-rf', workdir])
    return 2 if bad else 0


def main(argv):
    if not argv or argv[0] != 'determinism':
        sys.stderr.write(__doc__)
        return 2
    nseeds = 24
    props = []
    args = argv[1:]
    while args:
        a = args.pop(0)
        if a == '--seeds':
            nseeds = int(args.pop(0))
        else:
            props.append(a)
    if not props:
        props = sorted(engines._PROP_ENGINE)
        avail = []
        for p in props:
            try:
                engines.engine_for(p)
                avail.append(p)
            except ImportError:
                pass
        props = avail
    return determinism(props, nseeds)


if __name__ == '__main__':
    sys.exit(main(sys.argv[1:]))
