"""presencesim: presence registration of successive containers of one instance
from two or three hosts (= ZooKeeper sessions) over a simulated ZooKeeper (C17).

System under simulation (all real, unmodified):
 * services.presence_service.PresenceResourceService, one object per service
   process (one process at a time per host), behind the real
   LinuxResourceService / ResourceService request plumbing (_load_impl,
   _on_created, _on_deleted, _check_requests, clt_new/del/update_request,
   retry_request -> _update_request) and the real ResourceServiceClient
   (put / delete), fed by a real inotify DirWatcher on a private tmpfs tree;
 * the real kazoo DataWatch recipe (the "wait for the node to go away" watch);
 * presence.EndpointPresence register_identity/running/endpoints (the docker
   runtime path, blocks in time.sleep: the sleep *is* a simulator step) and
   unregister_running/endpoints through the real presence.kill_node;
 * trace.app.zk.publish -> _unschedule; zkutils.

Simulated: ZooKeeper (simkit.zk; one session per service process, resumed after
a kill as the zkid file does, new after an expiry), the clock (10 ms pass
between two ops; request links are stamped with the virtual time), the order
in which a starting service replays the requests it finds (glob order), when
watch events and directory events are handled, session expiry (also between two
ZooKeeper calls of a handler), what the clients do to the request directory
while a create handler is between two ZooKeeper calls (the finish of the
container being handled or of a sibling deletes its request, the next
container of the instance puts its request: nested op req_race), process kill,
the master (moves placements).

Every op is a non-blocking handler invocation; a run is a pure function of
(config, ops).

Oracle clauses: (1) presence nodes are created ephemeral by their session;
(2) no set/delete on a presence node owned by another session (kill_node: only
nodes of the host being killed); (3) the clean-up of a container deletes no
node registered and acknowledged for a newer container of the same instance;
(4) /scheduled/<inst> is deleted by a host only while it owns the placement
((1),(2),(4): oracles/presencecheck.py over the ZooKeeper op log); (5) at
quiescence after faults stop no request of a live service is unacknowledged
unless a node it needs is owned by another session; (6) when a registration
completes (create request acknowledged, EndpointPresence.register_* returned)
every node it stands for exists and is owned by the registering session
(a session resumed after a kill is the same session).
"""

import configparser
import glob as _real_glob
import importlib
import os
import sys
import time

import simkit
from simkit import SimProcessExit, HarnessError
from simkit import clock as clockmod
from simkit import engine as enginemod
from simkit import fsseam
from simkit import log as logmod
from simkit import rng as rngmod
from simkit import zk as zkmod

import kazoo.exceptions as kexc
import kazoo.retry as kretry

from treadmill import context
from treadmill import dirwatch
from treadmill import exc as tmexc
from treadmill import presence
from treadmill import services
from treadmill import sysinfo
from treadmill import utils
from treadmill import zknamespace as z
from treadmill import zkutils
from treadmill.services import _base_service
from treadmill.trace.app import zk as tracezk

from oracles import presencecheck

# host-name pools of the swarm: unrelated names, and names in a prefix
# relation (the node content is '<host>' or '<host>:<port>'; ownership tests
# by content must be exact)
HOST_POOLS = (
    ('hosta', 'hostb', 'hostc'),
    ('node1', 'node10', 'node2'),
    ('h.cell.co', 'h.cell.com', 'g.cell.com'),
    ('node1', 'node10', 'node100'),
    ('hosta', 'hostb', 'hostc'),
    ('node10', 'node1', 'node11'),
)
TERMINAL = ('finished', 'aborted', 'killed')
SETTLE_ROUNDS = 8
NESTABLE = ('svc', 'deliver', 'expire', 'delete', 'create', 'kill', 'restart',
            'place', 'ep_exit', 'ep_crash', 'ep_reap', 'req_race')
RACE_KINDS = ('finish', 'sibling_finish', 'sibling_start')


_REAL_RETRY = kretry.KazooRetry


class _DetRetry(_REAL_RETRY):
    """The real KazooRetry; it binds the real time.sleep as a default
    argument at import time - sleep on the virtual clock instead."""

    def __init__(self, *args, **kwargs):
        kwargs.setdefault('sleep_func', lambda s: time.sleep(s))
        _REAL_RETRY.__init__(self, *args, **kwargs)


class _NoJitter:
    @staticmethod
    def uniform(_lo, _hi):
        return 1.0


def _sys_exit(code):
    raise SimProcessExit(code)


class _Plugins:
    """plugin_manager.load from $VERIF_REPO/entry_points.txt."""

    def __init__(self):
        self._cp = configparser.ConfigParser(interpolation=None)
        self._cp.optionxform = str
        self._cp.read(os.path.join(simkit.REPO, 'entry_points.txt'))

    def load(self, section, name):
        try:
            spec = self._cp[section][name]
        except KeyError:
            raise KeyError('%s:%s' % (section, name))
        modname, _sep, attr = spec.partition(':')
        mod = importlib.import_module(modname.strip())
        return getattr(mod, attr.strip()) if attr else mod

    def __getattr__(self, name):
        raise HarnessError('unexpected plugin_manager.%s' % name)


class _Glob:
    """`glob` inside _base_service: the listing order is the simulator's."""

    def __init__(self, world):
        self._world = world

    def glob(self, pattern, **kwargs):
        names = sorted(_real_glob.glob(pattern, **kwargs))
        order = self._world.replay_order
        if order:
            rank = {rid: i for i, rid in enumerate(order)}
            names.sort(key=lambda p: rank.get(os.path.basename(p), len(rank)))
        return names

    def __getattr__(self, name):
        return getattr(_real_glob, name)


_IDLE_WATCHERS = []


def _get_watcher(path):
    """A real DirWatcher on `path`.  Closing an inotify descriptor costs
    ~10 ms of kernel time, so the objects of dead simulated processes are
    reused: watch removed, kernel queue drained, callbacks reset."""
    if _IDLE_WATCHERS:
        watcher = _IDLE_WATCHERS.pop()
        watcher.add_dir(path)
        return watcher
    return simkit.with_os_resource(lambda: dirwatch.DirWatcher(path))


def _release_watcher(watcher):
    for watched in list(watcher._watches.values()):
        watcher.remove_dir(watched)
    watcher.event_list.clear()
    while watcher.wait_for_events(timeout=0):
        watcher._read_events()
    watcher.event_list.clear()
    watcher.on_created = watcher.on_deleted = watcher.on_modified = \
        watcher._noop
    _IDLE_WATCHERS.append(watcher)


_PLUGINS = {}


def _plugins():
    if simkit.REPO not in _PLUGINS:
        _PLUGINS[simkit.REPO] = _Plugins()
    return _PLUGINS[simkit.REPO]


def rsrc_id_of(inst, seq):
    app, iid = inst.split('#')
    return '%s-%s-k%012d' % (app, iid, seq)


def _request_ok(op):
    """Ops are total: a malformed request op is a no-op."""
    if not isinstance(op.get('seq'), int):
        return False
    eps = op.get('eps', [])
    if not isinstance(eps, list):
        return False
    for ep in eps:
        if not (isinstance(ep, list) and len(ep) == 4):
            return False
    sleeps = op.get('sleeps', [])
    return isinstance(sleeps, list) and all(isinstance(x, list)
                                            for x in sleeps)


def model_paths(inst, data):
    """Nodes a container registers, from the request alone (reference)."""
    out = [('running', '/running/' + inst)]
    proid, _sep, rest = inst.partition('.')
    for ep in data.get('endpoints', []):
        name = ep.get('name', str(ep['port']))
        out.append(('endpoint', '/endpoints/%s/%s:%s:%s' % (
            proid, rest, ep.get('proto', 'tcp'), name)))
    if data.get('identity_group'):
        out.append(('identity', '/identity-groups/%s/%s' % (
            data['identity_group'], data.get('identity', sys.maxsize))))
    return out


class Cont:
    """Harness truth about one container (one presence request)."""
    __slots__ = ('seq', 'rank', 'host', 'inst', 'rsrc_id', 'data', 'paths',
                 'kind', 'present', 'acked_sid', 'voided', 'waiting',
                 'ever_waited', 'req_dir', 'client', 'last_eval', 'raced')

    def __init__(self, seq, rank, host, inst, data, kind):
        self.seq = seq
        self.rank = rank
        self.host = host
        self.inst = inst
        self.rsrc_id = rsrc_id_of(inst, seq)
        self.data = data
        self.paths = model_paths(inst, data)
        self.kind = kind          # 'svc' (resource service) | 'rt' (runtime)
        self.present = True       # request exists / runtime process lives
        self.acked_sid = None     # session that acknowledged the request
        self.voided = False       # registration removed by kill_node
        self.waiting = False
        self.ever_waited = False
        self.last_eval = None     # how its request was last evaluated
        self.raced = False        # deleted while its create handler ran
        self.req_dir = None
        self.client = None


class Proc:
    __slots__ = ('impl', 'watcher', 'client', 'sid')

    def __init__(self, impl, watcher, client, sid):
        self.impl = impl
        self.watcher = watcher
        self.client = client
        self.sid = sid


class Host:
    def __init__(self, name, root):
        self.name = name
        self.root = os.path.join(root, name)
        self.svc_dir = os.path.join(self.root, 'presence_svc')
        self.apps_dir = os.path.join(self.root, 'apps')
        os.makedirs(os.path.join(self.svc_dir, 'resources'))
        os.makedirs(self.apps_dir)
        self.svc = services.ResourceService(service_dir=self.svc_dir,
                                            impl='presence')
        self.rsrc_dir = os.path.join(self.svc_dir, 'resources')
        self.proc = None
        self.sid = None           # service session (may outlive a process)
        self.starts = 0
        self.pub = None
        self.rts = []             # [(sid, Cont)] runtime processes alive
        self.rt_zombies = []      # sessions of crashed runtime processes


class World:
    def __init__(self, config, clock, log, root, patches):
        self.config = config
        self.clock = clock
        self.log = log
        self.root = root
        self.zk = zkmod.SimZk(clock, log)
        self.zk.order_seed = config.get('child_order')
        self.admin = self.zk.connect('admin')
        self.instances = list(config['instances'])
        self.hosts = {}
        self.conts = {}           # seq -> Cont (creation order)
        self.nrank = 0
        self.placement = {}       # inst -> host (what the master did)
        self.violation = None
        self.step = 0
        self.fps = []
        self.replay_order = None
        self.cur_host = 'verifhost'
        self.stack = []           # sids whose code is on the call stack
        self.frames = []          # handler invocations in progress
        self.sleeping = None      # ep_register in progress
        self.sleep_chooser = None
        self.nsleeps = 0
        self.probes = {
            'two_sessions_same_instance': 0,
            'create_waited_for_foreign_node': 0, 'expiry_during_wait': 0,
            'newer_container_coexists': 0,
            'delete_of_old_after_new_registered': 0, 'session_expired': 0,
            'service_restarts': 0, 'session_resumed_after_kill': 0,
            'requests_acknowledged': 0, 'waits_resolved': 0,
            'requests_replayed': 0, 'replay_not_chronological': 0,
            'delete_requests_processed': 0, 'own_node_updated': 0,
            'node_vanished_before_owner_check': 0,
            'stale_publish_by_non_owner': 0, 'scheduled_deleted': 0,
            'kill_node_removed_registration': 0, 'rt_registered': 0,
            'rt_waited': 0, 'rt_gave_up': 0, 'settle_rounds': 0,
            'liveness_checked_waiters': 0, 'watch_events_delivered': 0,
            'older_registration_superseded': 0,
            'registrations_checked_own_session': 0,
            'rt_crashed_session_lingers': 0,
            'rt_registered_while_same_data_node_lingers': 0,
            'handler_preempted': 0, 'preempted_by_other_hosts_handler': 0,
            'handled_request_deleted_under_handler': 0,
            'race_outside_create_handler': 0,
            'delete_processed_after_racing_finish': 0,
        }
        self.faults = {'session_expired': 0, 'expire_mid_handler': 0,
                       'reply_lost_applied': 0, 'reply_lost_not_applied': 0,
                       'svc_killed': 0, 'kill_node': 0, 'placement_moved': 0,
                       'rt_session_closed': 0,
                       'request_deleted_mid_create': 0,
                       'sibling_request_deleted_mid_create': 0,
                       'sibling_request_created_mid_create': 0}
        self.unexpected = {'error_replies': 0, 'svc_died_unhandled': 0}
        self.oracle = presencecheck.Oracle(self.zk)
        self.oracle.set_role(self.admin.client_id[0], 'admin', None)
        self._install(patches)
        self._setup()

    # ------------------------------------------------------------------
    def fail(self, sig, detail):
        if self.violation is None:
            self.violation = {'sig': sig, 'detail': detail, 'step': self.step}

    def _install(self, patches):
        """Seams (module attributes of the modules under test)."""
        patches.set(utils, 'sys_exit', _sys_exit)
        patches.set(_base_service, 'glob', _Glob(self))
        patches.set(_base_service, 'tempfile', fsseam.CountingTempfile())
        patches.set(_base_service, 'plugin_manager', _plugins())
        patches.set(sysinfo, 'hostname', lambda: self.cur_host)
        patches.set(kretry, 'KazooRetry', _DetRetry)
        patches.set(kretry, 'random', _NoJitter)
        self.clock.on_sleep = self.on_sleep

    def _setup(self):
        adm = self.admin
        cfg = self.config
        for path in (z.RUNNING, z.ENDPOINTS, z.IDENTITY_GROUPS, z.SCHEDULED,
                     z.PLACEMENT, z.SERVERS, z.SERVER_PRESENCE, z.FINISHED,
                     z.TRACE):
            zkutils.ensure_exists(adm, path)
        for name in cfg['hosts']:
            host = Host(name, self.root)
            self.hosts[name] = host
            zkutils.put(adm, z.path.server(name), {'parent': 'rack:r1'})
            zkutils.ensure_exists(adm, z.path.placement(name))
            host.pub = self.zk.connect('pub-' + name)
            self.oracle.set_role(host.pub.client_id[0], 'pub', name)
            presence.register_server(host.pub, name, {'up_since': 0})
        for inst in self.instances:
            spec = cfg['specs'][inst]
            zkutils.put(adm, z.path.scheduled(inst), {
                'endpoints': [{'name': e[0], 'port': e[1], 'proto': e[2]}
                              for e in spec['eps']],
                'identity_group': spec['group']})
        self.oracle.pos = len(self.zk.oplog)
        self.oracle.seed_placement()

    # ------------------------------------------------------------------
    # plumbing
    def _enter(self, host):
        """Process-global state of the process whose code runs next."""
        self.cur_host = host.name
        if host.proc is not None:
            context.GLOBAL.zk.conn = host.proc.client

    def _hook_client(self, client, hostname):
        """Pre-emption points: before every ZooKeeper call (create / get /
        exists / get_children / set / set_acls / delete ...) of a service
        session the simulator may let the rest of the world act.  What
        happens before the k-th call of the handler invocation(s) of an op is
        recorded in the op: "during": [[k, [op, ...]], ...] (the older form
        "mid": {"at": k, "do": op} means [[k, [op]]]).  A nested
        {"op": "req_race", "what": ...} acts on the request whose create
        handler is in flight at that call (op_req_race)."""
        def hook(_path=None):
            frame = self.frames[-1] if self.frames else None
            if frame is not None and frame['host'] == hostname and \
                    frame['points']:
                frame['calls'] += 1
                todo = frame['points'].pop(frame['calls'], None)
                if todo:
                    self._preempt(hostname, frame['calls'], todo)
        # simkit.zk calls it (with the path) before every call of the client
        client.call_hook = hook

    def _preempt(self, hostname, at, todo):
        saved_conn = context.GLOBAL.zk._conn
        saved_host = self.cur_host
        saved_order = self.replay_order
        self.probes['handler_preempted'] += 1
        try:
            for sub in todo:
                if not isinstance(sub, dict):
                    continue
                sub = {k: v for k, v in sub.items()
                       if k not in ('during', 'mid', 'sleeps')}
                if sub.get('op') == 'conn_loss':
                    # the reply of this process' next mutating call is lost
                    # (ConnectionLoss), the call applied or not
                    host = self.hosts[hostname]
                    if host.proc is not None:
                        client = host.proc.client
                        client.fault_plan = {
                            'at': client.nwrites + 1, 'kind': 'conn_loss',
                            'applied': bool(sub.get('applied'))}
                        self.log.ev('during', hostname, at, sub)
                    continue
                if sub.get('op') == 'expire':
                    self.faults['expire_mid_handler'] += 1
                self.log.ev('during', hostname, at, sub)
                self.replay_order = None
                self.apply(sub, nested=True)
        finally:
            # back in the pre-empted process
            context.GLOBAL.zk._conn = saved_conn
            self.cur_host = saved_host
            self.replay_order = saved_order

    def _arm(self, op, host):
        points = {}
        mid = op.get('mid')
        if isinstance(mid, dict) and isinstance(mid.get('at'), int):
            points.setdefault(mid['at'], []).append(mid.get('do'))
        during = op.get('during')
        if isinstance(during, list):
            for item in during:
                if isinstance(item, list) and len(item) == 2 and \
                        isinstance(item[0], int) and \
                        isinstance(item[1], list):
                    points.setdefault(item[0], []).extend(item[1])
        self.frames.append({'host': host.name, 'calls': 0, 'points': points,
                            'handling': None})

    def _disarm(self):
        frame = self.frames.pop()
        host = self.hosts.get(frame['host'])
        proc = host.proc if host is not None else None
        if proc is not None:
            proc.client.fault_plan = None     # faults do not outlive the op
            while proc.client.fired:
                plan = proc.client.fired.pop()
                self.faults['reply_lost_applied' if plan.get('applied')
                            else 'reply_lost_not_applied'] += 1

    def _busy(self, hostname):
        """A handler of this host's service is on the call stack (it is
        pre-empted): the process cannot run a second one."""
        return any(f['host'] == hostname for f in self.frames)

    def _valid(self, cont):
        if cont.acked_sid is None or not cont.present or cont.voided:
            return False
        sess = self.zk.sessions.get(cont.acked_sid)
        return sess is not None and sess.alive

    def _blockers(self, cont, sid):
        out = []
        for _kind, path in cont.paths:
            node = self.zk.nodes.get(path)
            if node is not None and node.owner != sid:
                out.append(path)
        return out

    def _check_registered(self, cont, sid, who):
        """Clause (6): a registration that completed successfully stands on
        nodes that exist and are ephemeral nodes of the registering party's
        OWN session (a session resumed after a kill is the same session).
        Standing on a node another session owns = the node was adopted
        instead of waited for."""
        for kind, path in cont.paths:
            node = self.zk.nodes.get(path)
            if node is None:
                self.fail('C17:registered-without-node:%s' % kind,
                          '%s of %s (#%d) on %s completed but %s does not '
                          'exist' % (who, cont.rsrc_id, cont.seq, cont.host,
                                     path))
                return False
            if node.owner not in (0, sid):
                orole, ohost = self.oracle.roles.get(node.owner, ('?', None))
                self.fail('C17:registered-on-foreign-node:%s' % kind,
                          '%s of %s (#%d) on %s (session %d) completed while '
                          '%s is owned by session %d (%s of %s): the node '
                          'goes away with that session' % (
                              who, cont.rsrc_id, cont.seq, cont.host, sid,
                              path, node.owner, orole, ohost))
                return False
        self.probes['registrations_checked_own_session'] += 1
        return True

    def _owner_host(self, sid):
        return self.oracle.roles.get(sid, ('?', None))[1]

    def _proc_down(self, host, why):
        proc = host.proc
        if proc is None:
            return
        host.proc = None
        _release_watcher(proc.watcher)
        self.log.ev('proc-down', host.name, why)

    def _expire_session(self, sid):
        """Expire a session; the process that listens on it exits."""
        sess = self.zk.sessions.get(sid)
        if sess is None or not sess.alive:
            return False
        for cont in self.conts.values():
            if cont.waiting and cont.present:
                proc = self.hosts[cont.host].proc
                mine = proc is not None and proc.sid == sid
                owners = {self.zk.nodes[p].owner
                          for p in self._blockers(cont, proc.sid if proc
                                                  else -1)}
                if mine or sid in owners:
                    self.probes['expiry_during_wait'] += 1
                    break
        try:
            self.zk.expire(sid)
        except SimProcessExit:
            pass
        role, hname = self.oracle.roles.get(sid, ('?', None))
        host = self.hosts.get(hname)
        if role == 'svc' and host is not None:
            if host.proc is not None and host.proc.sid == sid:
                self._proc_down(host, 'session-lost')
        elif role == 'rt' and host is not None:
            for rsid, cont in list(host.rts):
                if rsid == sid:
                    cont.present = False
                    host.rts.remove((rsid, cont))
            if sid in host.rt_zombies:
                host.rt_zombies.remove(sid)
        if self.stack and self.stack[-1] == sid:
            raise SimProcessExit(-1)
        return True

    # ------------------------------------------------------------------
    # the two request handlers, with the harness' observation around them
    def _handle_created(self, host, impl, sid, path, how):
        base = os.path.basename(path)
        cont = None
        for cand in self.conts.values():
            if cand.rsrc_id == base and cand.host == host.name:
                cont = cand
        pos = len(self.zk.oplog)
        was_present = cont is not None and cont.present
        frame = self.frames[-1] if self.frames else None
        if frame is not None and frame['host'] == host.name:
            # whose request is in flight: a req_race at a pre-emption point
            # of this handler acts on this request / on its siblings
            frame['handling'] = cont
        try:
            res = host.svc._on_created(impl, path)      # real
        finally:
            if frame is not None and frame['host'] == host.name:
                frame['handling'] = None
        if cont is None or base.startswith('.') or not was_present:
            # temporary link, or a stale event of a request deleted since
            return res
        cont.last_eval = how
        window = self.zk.oplog[pos:]
        if cont.present and any(e[2] == 'set' and e[1] == sid
                                for e in window):
            self.probes['own_node_updated'] += 1
        # clause (3) also while an old container's request is (re)evaluated:
        # whatever that handling removes must not be the acknowledged
        # registration of a newer container of the same instance
        for _seq, dsid, dop, dpath, owner_before, _x in window:
            if dop != 'delete' or dsid != sid:
                continue
            for other in self.conts.values():
                if other.inst == cont.inst and other.rank > cont.rank and \
                        self._valid(other) and \
                        owner_before == other.acked_sid and \
                        any(p == dpath for _k, p in other.paths):
                    self.fail(
                        'C17:newer-container-unregistered:in-%s' % how,
                        'handling the %s of the request of container %s '
                        '(#%d) on %s deleted %s, registered and acknowledged '
                        'for the newer container %s (#%d) of %s on %s' % (
                            how, cont.rsrc_id, cont.seq, host.name, dpath,
                            other.rsrc_id, other.seq, other.inst, other.host))
                    return res
        if not cont.present:
            # the request was deleted (finish of the container) while this
            # handler was between two ZooKeeper calls: whatever was answered,
            # nobody is there to take it as an acknowledgement
            self.probes['handled_request_deleted_under_handler'] += 1
            self.log.ev('handled-gone', host.name, cont.seq, bool(res))
            return res
        if res:
            was_waiting = cont.waiting
            newly = cont.acked_sid != sid
            cont.acked_sid = sid
            cont.voided = False
            cont.waiting = False
            if newly:
                self.probes['requests_acknowledged'] += 1
                if was_waiting:
                    self.probes['waits_resolved'] += 1
                for other in self.conts.values():
                    if other.inst == cont.inst and other.present and \
                            other.rank < cont.rank:
                        self.probes['newer_container_coexists'] += 1
                        break
            self.log.ev('ack', host.name, cont.seq)
            self._check_registered(cont, sid, 'create request')
            return res
        # not actioned or error
        cont.acked_sid = None
        rep = os.path.join(cont.req_dir, _base_service.REP_FILE)
        err = False
        try:
            with open(rep) as f:
                err = '_error' in f.read()
        except FileNotFoundError:
            pass
        if err:
            cont.waiting = False
            self.unexpected['error_replies'] += 1
            self.log.ev('error-reply', host.name, cont.seq)
            return res
        blockers = self._blockers(cont, sid)
        if blockers:
            cont.waiting = True
            cont.ever_waited = True
            self.probes['create_waited_for_foreign_node'] += 1
            self.log.ev('wait', host.name, cont.seq, blockers[0])
        else:
            cont.waiting = True
            self.probes['node_vanished_before_owner_check'] += 1
            self.log.ev('wait-retry', host.name, cont.seq)
        return res

    def _handle_deleted(self, host, impl, sid, path):
        base = os.path.basename(path)
        pos = len(self.zk.oplog)
        res = host.svc._on_deleted(impl, path)          # real
        if base.startswith('.'):
            return res
        cont = None
        for cand in self.conts.values():
            if cand.rsrc_id == base and cand.host == host.name:
                cont = cand
        if cont is None:
            return res
        self.probes['delete_requests_processed'] += 1
        if cont.raced and res:
            self.probes['delete_processed_after_racing_finish'] += 1
        self.log.ev('deleted', host.name, cont.seq, repr(res))
        cont.acked_sid = None
        cont.waiting = False
        # clause (3): what this clean-up removed must not be the acknowledged
        # registration of a newer container of the same instance
        newer = [c for c in self.conts.values()
                 if c.inst == cont.inst and c.rank > cont.rank and
                 self._valid(c)]
        if newer:
            self.probes['delete_of_old_after_new_registered'] += 1
        for _seq, dsid, dop, dpath, owner_before, _x in self.zk.oplog[pos:]:
            if dop != 'delete' or dsid != sid:
                continue
            for other in newer:
                if owner_before == other.acked_sid and \
                        any(p == dpath for _k, p in other.paths):
                    self.fail(
                        'C17:newer-container-unregistered:after-%s' % (
                            cont.last_eval or 'no-evaluation',),
                        'clean-up of container %s (#%d) on %s deleted %s, '
                        'registered and acknowledged for the newer container '
                        '%s (#%d) of %s on %s' % (
                            cont.rsrc_id, cont.seq, host.name, dpath,
                            other.rsrc_id, other.seq, other.inst, other.host))
                    return res
        # An OLDER container whose nodes this clean-up removed (the newer
        # container had taken its registration over; the statement protects
        # newer containers only) is no longer registered: nodes that a later
        # re-evaluation of some other request creates at the same paths are
        # not "registered and acknowledged" for it.
        for _seq, dsid, dop, dpath, owner_before, _x in self.zk.oplog[pos:]:
            if dop != 'delete' or dsid != sid:
                continue
            for other in self.conts.values():
                if other.inst == cont.inst and other.rank < cont.rank and \
                        self._valid(other) and \
                        owner_before == other.acked_sid and \
                        any(p == dpath for _k, p in other.paths):
                    other.voided = True
                    self.probes['older_registration_superseded'] += 1
        return res

    # ------------------------------------------------------------------
    # ops
    def apply(self, op, nested=False):
        kind = op.get('op')
        if nested and kind not in NESTABLE:
            return
        fn = getattr(self, 'op_' + str(kind), None)
        if fn is None:
            return
        self.clock.advance(0.01)      # time passes between any two steps
        fn(op)

    def op_restart(self, op):
        """Supervisor starts the presence service of a host."""
        host = self.hosts.get(op.get('host'))
        if host is None or host.proc is not None or self._busy(host.name):
            return
        host.starts += 1
        if host.starts > 1:
            self.probes['service_restarts'] += 1
        sess = self.zk.sessions.get(host.sid) if host.sid else None
        if sess is not None and sess.alive:
            # --zkid: the new process resumes the session of the killed one
            client = zkmod.SimZkClient(self.zk, sess)
            sess.client = client
            self.probes['session_resumed_after_kill'] += 1
        else:
            client = self.zk.connect('svc-%s-%d' % (host.name, host.starts))
            host.sid = client.client_id[0]
            self.oracle.set_role(host.sid, 'svc', host.name)
        sid = host.sid
        self._hook_client(client, host.name)
        client.add_listener(zkutils.exit_on_lost)
        self.cur_host = host.name
        context.GLOBAL.zk.conn = client
        order = [str(x) for x in op.get('order') or []]
        self.replay_order = order
        self._arm(op, host)
        self.stack.append(sid)
        watcher = None
        try:
            # what ResourceService.run / LinuxResourceService._run do before
            # the loop
            if host.svc._service_class is None:
                host.svc._service_class = host.svc._load_impl()
            impl = host.svc._service_class()
            impl.initialize(host.svc._dir)
            watcher = _get_watcher(host.svc._rsrc_dir)
            host.proc = Proc(impl, watcher, client, sid)
            watcher.on_created = lambda p: self._handle_created(
                host, impl, sid, p, 'request')
            watcher.on_deleted = lambda p: self._handle_deleted(
                host, impl, sid, p)
            # NOTE (_run): a modified request is treated as a new request;
            # retry_request touches the link
            watcher.on_modified = lambda p: self._handle_created(
                host, impl, sid, p, 'retry')
            svcs = list(host.svc._check_requests())
            ranks = []
            for path in svcs:
                base = os.path.basename(path)
                for cand in self.conts.values():
                    if cand.rsrc_id == base:
                        ranks.append(cand.rank)
            if ranks != sorted(ranks):
                self.probes['replay_not_chronological'] += 1
            for path in svcs:
                self.probes['requests_replayed'] += 1
                self._handle_created(host, impl, sid, path, 'replay')
            impl.synchronize()
        except SimProcessExit:
            # _expire_session has already taken the process down (and closed
            # its watcher) unless it died before it had one
            if host.proc is not None:
                self._proc_down(host, 'exit-in-start')
        finally:
            self.stack.pop()
            self._disarm()
            self.replay_order = None
        self.log.ev('started', host.name, host.proc is not None, sid)

    def op_kill(self, op):
        """SIGKILL of the service process: the session lingers."""
        host = self.hosts.get(op.get('host'))
        if host is None or host.proc is None or self._busy(host.name):
            return
        sid = host.proc.sid
        self.faults['svc_killed'] += 1
        self._proc_down(host, 'killed')
        sess = self.zk.sessions[sid]
        sess.queue.clear()
        for table in (self.zk.data_watches, self.zk.child_watches):
            for path in list(table):
                table[path] = [w for w in table[path] if w[0] != sid]
                if not table[path]:
                    del table[path]
        for cont in self.conts.values():
            if cont.host == host.name:
                cont.waiting = False

    def op_expire(self, op):
        host = self.hosts.get(op.get('host'))
        if host is None or host.sid is None:
            return
        sess = self.zk.sessions.get(host.sid)
        if sess is None or not sess.alive:
            return
        self.faults['session_expired'] += 1
        self.probes['session_expired'] += 1
        self._expire_session(host.sid)
        for cont in self.conts.values():
            if cont.host == host.name and cont.kind == 'svc':
                cont.waiting = False

    def op_create(self, op):
        """A container start puts its presence request (runtime/linux/_run)."""
        host = self.hosts.get(op.get('host'))
        inst = op.get('inst')
        if host is None or inst not in self.instances or \
                not _request_ok(op) or op['seq'] in self.conts:
            return
        data = {'endpoints': [{'name': e[0], 'port': e[1], 'real_port': e[2],
                               'proto': e[3]} for e in op.get('eps', [])]}
        if op.get('group'):
            data['identity_group'] = op['group']
        if op.get('identity') is not None:
            data['identity'] = op['identity']
        self.nrank += 1
        cont = Cont(op['seq'], self.nrank, host.name, inst, data, 'svc')
        for other in self.conts.values():
            if other.inst == inst and other.host != host.name and \
                    other.present:
                self.probes['two_sessions_same_instance'] += 1
                break
        self.conts[cont.seq] = cont
        cont.client = host.svc.make_client(os.path.join(
            host.apps_dir, cont.rsrc_id, 'data', 'resources', 'presence'))
        cont.req_dir = cont.client._req_dirname(cont.rsrc_id)
        self.cur_host = host.name
        cont.client.put(cont.rsrc_id, data)                 # real
        # the request link carries the (virtual) time of the request
        link = os.path.join(host.rsrc_dir, cont.rsrc_id)
        now_ns = int(self.clock.peek() * 1000000) * 1000
        try:
            os.utime(link, ns=(now_ns, now_ns), follow_symlinks=False)
        except FileNotFoundError:
            return
        # ... and the IN_ATTRIB of that stamping is the harness' own doing:
        # take it out of the queue of a running service
        if host.proc is not None:
            watcher = host.proc.watcher
            if watcher._wait_for_events(0):
                watcher.event_list.extend(watcher._read_events())
            last = watcher.event_list[-1] if watcher.event_list else None
            if last is None or \
                    last[0] != dirwatch.DirWatcherEvent.MODIFIED or \
                    os.path.basename(last[1]) != cont.rsrc_id:
                raise HarnessError('stamping event not found: %r' % (last,))
            watcher.event_list.pop()

    def op_delete(self, op):
        """Container clean-up deletes the request (runtime/linux/_finish)."""
        cont = self.conts.get(op.get('seq'))
        if cont is None or cont.kind != 'svc' or not cont.present:
            return
        cont.present = False
        self.cur_host = cont.host
        cont.client.delete(cont.rsrc_id)                    # real
        if self.hosts[cont.host].proc is None:
            # nobody will ever see the removal
            cont.waiting = False

    def op_req_race(self, op):
        """(nested only) While a create handler of a service - first
        evaluation, retry or replay of a request - is between two ZooKeeper
        calls, a client acts on the request directory of that service, as the
        runtime of a container does at any time:
          what=finish          the container whose request is being handled
                               finishes: ResourceServiceClient.delete (rename
                               of the request directory + unlink of the link);
          what=sibling_finish  another container of the same instance (the
                               pick-th present one by age, on whichever host)
                               finishes;
          what=sibling_start   the next container of the same instance starts
                               on the same host (host: null) or on the named
                               one: ResourceServiceClient.put.
        The target is "the request in flight at that call", which is a
        function of the ops before; outside a create handler it is a no-op."""
        frame = self.frames[-1] if self.frames else None
        cont = frame.get('handling') if frame is not None else None
        what = op.get('what')
        if what not in RACE_KINDS:
            return
        if cont is None or cont.kind != 'svc':
            self.probes['race_outside_create_handler'] += 1
            return
        if what == 'finish':
            if not cont.present:
                return
            cont.raced = True
            self.log.ev('race', what, cont.seq)
            self.faults['request_deleted_mid_create'] += 1
            self.op_delete({'seq': cont.seq})
        elif what == 'sibling_finish':
            sibs = [c for c in self.conts.values()
                    if c.inst == cont.inst and c is not cont and
                    c.kind == 'svc' and c.present]
            if not sibs or not isinstance(op.get('pick'), int):
                return
            target = sibs[op['pick'] % len(sibs)]
            self.log.ev('race', what, cont.seq, target.seq)
            self.faults['sibling_request_deleted_mid_create'] += 1
            self.op_delete({'seq': target.seq})
        else:
            hname = op.get('host') or cont.host
            spec = self.config['specs'].get(cont.inst)
            if hname not in self.hosts or spec is None or \
                    not isinstance(op.get('seq'), int) or \
                    op['seq'] in self.conts:
                return
            eps = [[e[0], e[1], 30000 + op['seq'], e[2]] for e in spec['eps']]
            if eps and op.get('short'):
                eps = eps[:-1]
            identity = None
            if spec['group'] and isinstance(op.get('identity_pick'), int):
                identity = spec['identities'][
                    op['identity_pick'] % len(spec['identities'])]
            self.log.ev('race', what, cont.seq, op['seq'], hname)
            self.op_create({'op': 'create', 'host': hname, 'inst': cont.inst,
                            'seq': op['seq'], 'eps': eps,
                            'group': spec['group'], 'identity': identity})
            if op['seq'] in self.conts:
                self.faults['sibling_request_created_mid_create'] += 1

    def _dir_pending(self, proc):
        return bool(proc.watcher.event_list or
                    proc.watcher.wait_for_events(timeout=0))

    def op_svc(self, op):
        """One turn of the service loop: up to n request events."""
        host = self.hosts.get(op.get('host'))
        if host is None or host.proc is None or self._busy(host.name):
            return 0
        proc = host.proc
        if self.frames:
            self.probes['preempted_by_other_hosts_handler'] += 1
        self._enter(host)
        self._arm(op, host)
        self.stack.append(proc.sid)
        nmax = int(op.get('n', 5)) or 5
        done = 0
        try:
            watcher = proc.watcher
            if watcher.event_list:
                res = watcher.process_events(max_events=nmax, resume=True)
            elif watcher.wait_for_events(timeout=0):
                res = watcher.process_events(max_events=nmax)
            else:
                res = []
            host.svc._check_requests()
            done = sum(1 for ev, _p, _r in res
                       if ev != dirwatch.DirWatcherEvent.MORE_PENDING)
            self.log.ev('svc', host.name, [
                (ev.value, os.path.basename(p) if p else None, bool(r))
                for ev, p, r in res])
        except SimProcessExit:
            if host.proc is not None:
                self._proc_down(host, 'exit-in-handler')
        finally:
            self.stack.pop()
            self._disarm()
        return done

    def op_deliver(self, op):
        """Deliver up to n queued watch events of the host's service."""
        host = self.hosts.get(op.get('host'))
        if host is None or host.proc is None or self._busy(host.name):
            return 0
        proc = host.proc
        self._enter(host)
        self._arm({}, host)
        self.stack.append(proc.sid)
        done = 0
        try:
            done = self.zk.deliver(proc.sid, int(op.get('n', 1)))
        except SimProcessExit:
            self.unexpected['svc_died_unhandled'] += 1
            if host.proc is not None:
                self._proc_down(host, 'exit-in-watch')
        finally:
            self.stack.pop()
            self._disarm()
        self.probes['watch_events_delivered'] += done
        return done

    def op_place(self, op):
        """The master moves the placement of an instance."""
        inst = op.get('inst')
        target = op.get('host')
        if inst not in self.instances or \
                (target is not None and target not in self.hosts):
            return
        cur = self.placement.get(inst)
        if cur == target:
            return
        if cur is not None:
            zkutils.ensure_deleted(self.admin, z.path.placement(cur, inst))
        if target is not None:
            zkutils.put(self.admin, z.path.placement(target, inst),
                        {'expires': 0, 'identity': None})
        self.placement[inst] = target
        self.faults['placement_moved'] += 1

    def op_publish(self, op):
        """events-publisher of a host publishes an app event."""
        host = self.hosts.get(op.get('host'))
        inst = op.get('inst')
        etype = op.get('type')
        if host is None or inst not in self.instances or \
                not isinstance(etype, str):
            return
        if etype in TERMINAL and self.placement.get(inst) != host.name:
            self.probes['stale_publish_by_non_owner'] += 1
        had = z.path.scheduled(inst) in self.zk.nodes
        saved = tracezk._HOSTNAME
        tracezk._HOSTNAME = host.name
        try:
            tracezk.publish(host.pub, '%.6f' % self.clock.peek(), inst, etype,
                            str(op.get('data', '0.0')), None)   # real
        finally:
            tracezk._HOSTNAME = saved
        if had and z.path.scheduled(inst) not in self.zk.nodes:
            self.probes['scheduled_deleted'] += 1

    def op_kill_node(self, op):
        """Admin: treadmill admin blackout ... -> presence.kill_node."""
        host = self.hosts.get(op.get('host'))
        if host is None:
            return
        self.faults['kill_node'] += 1
        presence.kill_node(self.admin, host.name)           # real
        bad = self.oracle.scan(kill_node=host.name)
        if bad:
            self.fail(*bad)
        for cont in self.conts.values():
            if cont.host == host.name and self._valid(cont):
                for _kind, path in cont.paths:
                    node = self.zk.nodes.get(path)
                    if node is None or node.owner != cont.acked_sid:
                        cont.voided = True
                        self.probes['kill_node_removed_registration'] += 1
                        break

    def op_ep_register(self, op):
        """A docker-runtime container registers itself (EndpointPresence)
        from its own session; blocks in time.sleep while a node exists."""
        host = self.hosts.get(op.get('host'))
        inst = op.get('inst')
        if host is None or inst not in self.instances or \
                not _request_ok(op) or op['seq'] in self.conts or \
                self.sleeping is not None:
            return
        manifest = {'name': inst,
                    'endpoints': [{'name': e[0], 'port': e[1],
                                   'real_port': e[2], 'proto': e[3]}
                                  for e in op.get('eps', [])]}
        if op.get('group'):
            manifest['identity_group'] = op['group']
        if op.get('identity') is not None:
            manifest['identity'] = op['identity']
        self.nrank += 1
        cont = Cont(op['seq'], self.nrank, host.name, inst, manifest, 'rt')
        self.conts[cont.seq] = cont
        client = self.zk.connect('rt-%s-%d' % (host.name, cont.seq))
        sid = client.client_id[0]
        self.oracle.set_role(sid, 'rt', host.name)
        client.add_listener(zkutils.exit_on_lost)
        host.rts.append((sid, cont))
        self.cur_host = host.name
        for zsid in host.rt_zombies:
            if any(self.zk.nodes.get(p) is not None and
                   self.zk.nodes[p].owner == zsid for _k, p in cont.paths):
                self.probes['rt_registered_while_same_data_node_lingers'] += 1
                break
        lists = op.setdefault('sleeps', [])
        self.sleeping = {'lists': lists, 'k': 0, 'host': host.name}
        self.stack.append(sid)
        outcome = 'registered'
        try:
            app_presence = presence.EndpointPresence(client, manifest)
            app_presence.register_identity()                # real
            app_presence.register_running()
            app_presence.register_endpoints()
            cont.acked_sid = sid
            self.probes['rt_registered'] += 1
            self._check_registered(cont, sid, 'EndpointPresence.register_*')
        except tmexc.ContainerSetupError:
            outcome = 'gave-up'
            self.probes['rt_gave_up'] += 1
        except (SimProcessExit, kexc.SessionExpiredError):
            outcome = 'session-lost'
        finally:
            self.stack.pop()
            if self.sleeping['k']:
                self.probes['rt_waited'] += 1
            self.sleeping = None
        if outcome != 'registered':
            # the runtime aborts the container: its process and session end
            self._expire_session(sid)
            cont.present = False
        self.log.ev('ep_register', host.name, cont.seq, outcome)

    def on_sleep(self, _seconds):
        """time.sleep of the code under test = a simulator step."""
        self.nsleeps += 1
        if self.nsleeps > 2000:
            raise HarnessError('code under test sleeps without end')
        slp = self.sleeping
        if slp is None:
            return
        k = slp['k']
        slp['k'] = k + 1
        lists = slp['lists']
        if k < len(lists):
            todo = lists[k]
        elif self.sleep_chooser is not None:
            todo = self.sleep_chooser(self, slp['host'])
            while len(lists) < k:
                lists.append([])
            lists.append(todo)
        else:
            todo = []
        saved = self.cur_host
        for sub in todo:
            if isinstance(sub, dict):
                self.log.ev('during-sleep', k, sub)
                self.apply(sub, nested=True)
        self.cur_host = saved

    def op_ep_exit(self, op):
        """A docker-runtime container process ends: its session closes."""
        host = self.hosts.get(op.get('host'))
        if host is None or not host.rts:
            return
        idx = int(op.get('idx', 0)) % len(host.rts)
        sid, _cont = host.rts[idx]
        self.faults['rt_session_closed'] += 1
        self._expire_session(sid)

    def op_ep_crash(self, op):
        """A docker-runtime container process dies without closing its
        ZooKeeper session: its nodes linger until the session times out."""
        host = self.hosts.get(op.get('host'))
        if host is None or not host.rts:
            return
        idx = int(op.get('idx', 0)) % len(host.rts)
        sid, cont = host.rts[idx]
        if self.stack and sid in self.stack:
            return                      # it is the one registering right now
        host.rts.pop(idx)
        cont.present = False
        host.rt_zombies.append(sid)
        sess = self.zk.sessions[sid]
        sess.queue.clear()
        sess.client._listeners[:] = []
        self.probes['rt_crashed_session_lingers'] += 1

    def op_ep_reap(self, op):
        """The session of a crashed runtime process times out."""
        host = self.hosts.get(op.get('host'))
        if host is None or not host.rt_zombies:
            return
        sid = host.rt_zombies[int(op.get('idx', 0)) % len(host.rt_zombies)]
        self.faults['rt_session_closed'] += 1
        self._expire_session(sid)

    def op_settle(self, _op):
        """Faults stop: everything queued is handled until nothing moves;
        then no request may be left waiting for a node that is gone."""
        rounds = 0
        quiet = False
        for _ in range(SETTLE_ROUNDS):
            moved = 0
            for _guard in range(10000):
                sids = self.zk.sessions_with_events()
                if not sids:
                    break
                for sid in sids:
                    hname = self._owner_host(sid)
                    host = self.hosts.get(hname)
                    if host is None or host.proc is None or \
                            host.proc.sid != sid:
                        self.zk.sessions[sid].queue.clear()
                        continue
                    moved += self.op_deliver({'host': hname, 'n': 1})
            for hname in sorted(self.hosts):
                for _guard in range(500):
                    host = self.hosts[hname]
                    if host.proc is None or not self._dir_pending(host.proc):
                        break
                    moved += max(1, self.op_svc({'host': hname, 'n': 5}))
            if not moved:
                quiet = True
                break
            rounds += 1
        self.probes['settle_rounds'] += rounds
        self.log.ev('settled', rounds, quiet)
        if not quiet:
            self.fail('C17:no-quiescence-after-faults-stop',
                      'watch/request events still flowing after %d settle '
                      'rounds' % SETTLE_ROUNDS)
            return
        for cont in self.conts.values():
            if cont.kind != 'svc' or not cont.present:
                continue
            host = self.hosts[cont.host]
            if host.proc is None or cont.acked_sid == host.proc.sid:
                continue
            rep = os.path.join(cont.req_dir, _base_service.REP_FILE)
            try:
                with open(rep) as f:
                    if '_error' in f.read():
                        continue
            except FileNotFoundError:
                pass
            self.probes['liveness_checked_waiters'] += 1
            blockers = self._blockers(cont, host.proc.sid)
            if not blockers:
                self.fail('C17:waiting-request-never-acknowledged',
                          'request %s (#%d) on %s is not acknowledged although '
                          'no node it needs is owned by another session and '
                          'no watch or request event is outstanding%s' % (
                              cont.rsrc_id, cont.seq, cont.host,
                              ' (it had been waiting for a foreign node)'
                              if cont.ever_waited else ''))
                return

    # ------------------------------------------------------------------
    def after_op(self):
        bad = self.oracle.scan()
        if bad:
            self.fail(*bad)
        nodes = []
        for path in sorted(self.zk.nodes):
            cls = presencecheck.classify(path)
            if cls is None:
                continue
            owner = self.zk.nodes[path].owner
            role, hname = self.oracle.roles.get(owner, ('-', None))
            nodes.append((cls[0], path if cls[0] != 'placement' else
                          '%s/%s' % cls[1], role, hname))
        conts = [(c.host, c.inst, c.kind, c.present, self._valid(c),
                  c.waiting) for c in self.conts.values()]
        procs = [(n, h.proc is not None,
                  bool(h.sid and self.zk.sessions[h.sid].alive))
                 for n, h in sorted(self.hosts.items())]
        state = [nodes, conts, procs]
        self.fps.append(logmod.fingerprint(state))
        self.log.ev('st', self.fps[-1])

    def close(self):
        for host in self.hosts.values():
            if host.proc is not None:
                _release_watcher(host.proc.watcher)
                host.proc = None


# ---------------------------------------------------------------------------
# generation

OP_WEIGHTS = [
    ('create', 20), ('delete', 13), ('svc', 30), ('deliver', 30),
    ('expire', 4), ('kill', 2), ('restart', 9), ('place', 5), ('publish', 6),
    ('kill_node', 2), ('ep_register', 2), ('ep_exit', 1), ('handover', 3),
    ('restart_same_host', 2), ('ep_crash', 1), ('ep_reap', 1),
    ('rt_restart_same_host', 2), ('fence_old_host', 3),
    ('call_level_race', 3), ('delete_reply_lost', 3), ('ping_pong', 3),
    ('failed_reregistration', 3), ('finish_races_create', 3),
]


class Generator:
    def __init__(self, config, streams):
        self.config = config
        self.rng = streams.get('gen')
        self.sched = streams.get('sched')
        self.fault = streams.get('fault')
        self.fsorder = streams.get('fsorder')
        self.race = streams.get('race')
        self.seq = 0
        self.follow = []
        self.weights = [(k, w * config['wmul'].get(k, 1.0))
                        for k, w in OP_WEIGHTS]

    def next_op(self, world):
        if self.follow:
            return self.follow.pop(0)
        for _ in range(30):
            kind = rngmod.weighted(self.rng, self.weights)
            op = getattr(self, 'g_' + kind)(world)
            if op is not None:
                return op
        return {'op': 'svc', 'host': self.config['hosts'][0], 'n': 5}

    # -- pieces
    def _request(self, world, inst, kind='create', host=None):
        cfg = self.config
        rng = self.rng
        spec = cfg['specs'][inst]
        self.seq += 1
        if host is None:
            owner = world.placement.get(inst)
            if owner is not None and rng.random() < 0.55:
                host = owner
            else:
                host = rng.choice(cfg['hosts'])
        eps = [[e[0], e[1], 30000 + self.seq, e[2]] for e in spec['eps']]
        if eps and rng.random() < 0.2:
            eps = eps[:-1]
        identity = rng.choice(spec['identities']) if spec['group'] else None
        return {'op': kind, 'host': host, 'inst': inst, 'seq': self.seq,
                'eps': eps, 'group': spec['group'], 'identity': identity}

    def g_create(self, world):
        return self._request(world, self.rng.choice(self.config['instances']))

    def g_delete(self, world):
        live = [c for c in world.conts.values()
                if c.kind == 'svc' and c.present]
        if not live:
            return None
        older = [c for c in live
                 if any(o.inst == c.inst and o.rank > c.rank and o.present
                        for o in world.conts.values())]
        pool = older if older and self.rng.random() < 0.6 else live
        return {'op': 'delete', 'seq': self.rng.choice(pool).seq}

    def _mid(self, op):
        """Pre-emption points of a handler op: before its k-th ZooKeeper
        call the other hosts' services run whole handlers, sessions expire,
        requests are deleted."""
        fault = self.fault
        if fault.random() >= self.config['p_mid']:
            return self._race(op)
        others = [h for h in self.config['hosts'] if h != op['host']]
        during = []
        for at in sorted(fault.sample(range(1, 9), fault.choice([1, 1, 2]))):
            subs = []
            for _ in range(fault.choice([1, 1, 2])):
                kind = fault.choice(['svc', 'svc', 'deliver', 'expire',
                                     'delete', 'svc', 'conn_loss'])
                if kind == 'svc' and others:
                    subs.append({'op': 'svc', 'host': fault.choice(others),
                                 'n': fault.choice([1, 1, 5])})
                elif kind == 'deliver' and others:
                    subs.append({'op': 'deliver', 'n': 9,
                                 'host': fault.choice(others)})
                elif kind == 'expire':
                    subs.append({'op': 'expire', 'host': fault.choice(
                        self.config['hosts'])})
                elif kind == 'conn_loss':
                    subs.append({'op': 'conn_loss',
                                 'applied': fault.random() < 0.6})
                elif kind == 'delete' and self.seq:
                    subs.append({'op': 'delete',
                                 'seq': fault.randint(1, self.seq)})
            if subs:
                during.append([at, subs])
        if during:
            op['during'] = during
        return self._race(op)

    def _race_op(self, what=None):
        """A client acts on the request directory while a create handler is
        in flight (World.op_req_race)."""
        race = self.race
        if what is None:
            what = race.choice(['finish', 'finish', 'sibling_finish',
                                'sibling_start'])
        sub = {'op': 'req_race', 'what': what}
        if what == 'sibling_finish':
            sub['pick'] = race.randrange(4)
        elif what == 'sibling_start':
            self.seq += 1
            sub.update({
                'seq': self.seq, 'short': race.random() < 0.2,
                'identity_pick': race.randrange(2),
                'host': (race.choice(self.config['hosts'])
                         if race.random() < 0.3 else None)})
        return sub

    def _race(self, op):
        """Request-directory races of a handler op (own stream: the other
        decisions of a seed do not depend on them)."""
        race = self.race
        if race.random() >= self.config.get('p_race', 0.0):
            return op
        at = race.choice([1, 1, 1, 2, 2, 3, 4, 5, 6])
        op.setdefault('during', []).append([at, [self._race_op()]])
        op['during'].sort(key=lambda item: item[0])
        return op

    def g_svc(self, world):
        up = [n for n, h in sorted(world.hosts.items()) if h.proc is not None]
        if not up:
            return None
        busy = [n for n in up if world._dir_pending(world.hosts[n].proc)]
        pool = busy if busy and self.sched.random() < 0.85 else up
        return self._mid({'op': 'svc', 'host': self.sched.choice(pool),
                          'n': self.sched.choice([1, 1, 1, 2, 5])})

    def g_deliver(self, world):
        ready = [n for n, h in sorted(world.hosts.items())
                 if h.proc is not None and world.zk.pending(h.proc.sid)]
        if not ready:
            return None
        if self.sched.random() < self.config['p_delay']:
            return None               # this run delivers late
        return {'op': 'deliver', 'host': self.sched.choice(ready),
                'n': self.sched.choice([1, 1, 1, 2, 9])}

    def g_expire(self, world):
        live = [n for n, h in sorted(world.hosts.items())
                if h.sid and world.zk.sessions[h.sid].alive]
        if not live:
            return None
        # bias: the owner of a node somebody waits for
        for cont in world.conts.values():
            if cont.waiting and cont.present and self.fault.random() < 0.5:
                proc = world.hosts[cont.host].proc
                for path in world._blockers(cont, proc.sid if proc else -1):
                    hname = world._owner_host(world.zk.nodes[path].owner)
                    if hname in live and world.oracle.roles[
                            world.zk.nodes[path].owner][0] == 'svc':
                        return {'op': 'expire', 'host': hname}
        return {'op': 'expire', 'host': self.fault.choice(live)}

    def g_kill(self, world):
        up = [n for n, h in sorted(world.hosts.items()) if h.proc is not None]
        return {'op': 'kill', 'host': self.fault.choice(up)} if up else None

    def g_restart(self, world, name=None):
        down = [n for n, h in sorted(world.hosts.items()) if h.proc is None]
        if name is None:
            if not down:
                return None
            name = self.sched.choice(down)
        ids = [c.rsrc_id for c in world.conts.values()
               if c.host == name and c.kind == 'svc' and c.present]
        mode = self.fsorder.random()
        if mode < 0.4:
            pass                          # oldest first
        elif mode < 0.7:
            ids.reverse()                 # newest first (tmpfs, older kernels)
        else:
            self.fsorder.shuffle(ids)     # hashed directories
        return self._mid({'op': 'restart', 'host': name, 'order': ids})

    def g_place(self, world):
        inst = self.rng.choice(self.config['instances'])
        target = self.rng.choice(self.config['hosts'] + [None]) \
            if self.rng.random() < 0.2 else self.rng.choice(
                self.config['hosts'])
        if world.placement.get(inst) == target:
            return None
        return {'op': 'place', 'inst': inst, 'host': target}

    def g_publish(self, world):
        inst = self.rng.choice(self.config['instances'])
        hosts = self.config['hosts']
        had = sorted({c.host for c in world.conts.values() if c.inst == inst})
        pool = had if had and self.rng.random() < 0.7 else hosts
        etype = self.rng.choice(['finished', 'aborted', 'killed', 'finished',
                                 'running', 'configured'])
        return {'op': 'publish', 'host': self.rng.choice(pool), 'inst': inst,
                'type': etype, 'data': '0.0'}

    def g_kill_node(self, world):
        return {'op': 'kill_node', 'host': self.fault.choice(
            self.config['hosts'])}

    def g_ep_register(self, world):
        if not self.config['docker']:
            return None
        return self._request(world, self.rng.choice(self.config['instances']),
                             kind='ep_register')

    def g_ep_exit(self, world):
        have = [n for n, h in sorted(world.hosts.items()) if h.rts]
        if not have:
            return None
        name = self.rng.choice(have)
        return {'op': 'ep_exit', 'host': name,
                'idx': self.rng.randrange(len(world.hosts[name].rts))}

    def g_ep_crash(self, world):
        have = [n for n, h in sorted(world.hosts.items()) if h.rts]
        if not have:
            return None
        name = self.fault.choice(have)
        return {'op': 'ep_crash', 'host': name,
                'idx': self.fault.randrange(len(world.hosts[name].rts))}

    def g_ep_reap(self, world):
        have = [n for n, h in sorted(world.hosts.items()) if h.rt_zombies]
        if not have:
            return None
        name = self.fault.choice(have)
        return {'op': 'ep_reap', 'host': name,
                'idx': self.fault.randrange(len(world.hosts[name].rt_zombies))}

    def g_rt_restart_same_host(self, world):
        """A docker-runtime container crashes (its session lingers) and the
        instance is started again on the same host, usually with the very
        same registration data, before that session times out."""
        if not self.config['docker']:
            return None
        inst = self.rng.choice(self.config['instances'])
        host = self.rng.choice(self.config['hosts'])
        first = self._request(world, inst, kind='ep_register', host=host)
        second = self._request(world, inst, kind='ep_register', host=host)
        if self.rng.random() < 0.8:
            second['eps'] = [list(e) for e in first['eps']]
            second['identity'] = first['identity']
        tail = [{'op': 'ep_crash', 'host': host, 'idx': -1}, second]
        if self.rng.random() < 0.7:
            tail.append({'op': 'ep_reap', 'host': host, 'idx': 0})
        self.follow.extend(tail)
        return first

    def sleep_ops(self, world, sleeper_host):
        """What the rest of the world does while a runtime sleeps 5 s."""
        out = []
        for _ in range(self.sched.choice([0, 1, 1, 2])):
            kind = self.sched.choice(['svc', 'deliver', 'delete', 'expire',
                                      'svc', 'deliver', 'ep_exit', 'create',
                                      'ep_reap', 'ep_reap'])
            if kind == 'expire' and self.sched.random() < 0.6:
                continue
            op = getattr(self, 'g_' + kind)(world)
            if op is not None:
                op.pop('mid', None)
                op.pop('during', None)
                out.append(op)
        return out

    # -- targeted scenarios (several ops in a row)
    def g_handover(self, world):
        """The instance moves to another host while the old container's
        presence is still registered; the clean-up comes later."""
        cands = [c for c in world.conts.values()
                 if c.kind == 'svc' and c.present and world._valid(c)]
        others = self.config['hosts']
        if not cands or len(others) < 2:
            return None
        old = self.rng.choice(cands)
        new_host = self.rng.choice([h for h in others if h != old.host])
        tail = [self._request(world, old.inst, host=new_host),
                {'op': 'svc', 'host': new_host, 'n': 5}]
        end = self.rng.choice(['delete', 'expire', 'kill_node', 'delete'])
        wake = [{'op': 'deliver', 'host': new_host, 'n': 9},
                {'op': 'svc', 'host': new_host, 'n': 5}]
        if end == 'delete':
            tail += [{'op': 'delete', 'seq': old.seq},
                     {'op': 'svc', 'host': old.host, 'n': 5}]
            if self.rng.random() < 0.6:
                tail += wake
        elif end == 'expire':
            tail += [{'op': 'expire', 'host': old.host}]
            if self.rng.random() < 0.6:
                tail += wake
        else:
            # the old host is blacked out but its service lives on for a
            # while and cleans up later
            tail += [{'op': 'kill_node', 'host': old.host}] + wake + [
                {'op': 'delete', 'seq': old.seq},
                {'op': 'svc', 'host': old.host, 'n': 5}]
        if self.rng.random() < 0.5:
            tail.append({'op': 'publish', 'host': old.host, 'inst': old.inst,
                         'type': 'finished', 'data': '0.0'})
        self.follow.extend(tail)
        return {'op': 'place', 'inst': old.inst, 'host': new_host}

    def g_fence_old_host(self, world):
        """An admin fences a host (kill_node) that still holds the placement
        of an instance whose current container is registered from another
        host (the old host died / was blacked out, the master has not moved
        the record yet, or moved it back)."""
        cands = [c for c in world.conts.values()
                 if c.present and world._valid(c)]
        if not cands:
            return None
        cur = self.rng.choice(cands)
        others = [h for h in self.config['hosts'] if h != cur.host]
        if not others:
            return None
        related = [h for h in others
                   if cur.host.startswith(h) or h.startswith(cur.host)]
        old = self.rng.choice(related if related and
                              self.rng.random() < 0.8 else others)
        tail = []
        if self.rng.random() < 0.4 and world.hosts[old].sid and \
                world.zk.sessions[world.hosts[old].sid].alive:
            tail.append({'op': 'expire', 'host': old})
        tail.append({'op': 'kill_node', 'host': old})
        if world.placement.get(cur.inst) == old:
            first = tail.pop(0)
            self.follow.extend(tail)
            return first
        self.follow.extend(tail)
        return {'op': 'place', 'inst': cur.inst, 'host': old}

    def g_call_level_race(self, world):
        """The other host replaces its container (clean-up of the old one,
        request of the next) while this host's handler is between two
        ZooKeeper calls: the node this host found existing is deleted before
        it is read back and registered again before the next call."""
        olds = [c for c in world.conts.values()
                if c.kind == 'svc' and c.present and world._valid(c) and
                world.hosts[c.host].proc is not None and
                not world._dir_pending(world.hosts[c.host].proc)]
        if not olds:
            return None
        old = self.rng.choice(olds)
        mine = [n for n, h in sorted(world.hosts.items())
                if n != old.host and h.proc is not None and
                not world._dir_pending(h.proc)]
        if not mine:
            return None
        me = self.rng.choice(mine)
        first, second = self.rng.choice([(2, 3), (2, 3), (2, 4), (3, 4),
                                         (1, 2), (2, 2)])
        nxt = self._request(world, old.inst, host=old.host)
        req = self._request(world, old.inst, host=me)
        during = [[first, [{'op': 'svc', 'host': old.host, 'n': 1}]]]
        if second == first:
            during[0][1].append({'op': 'svc', 'host': old.host, 'n': 5})
        else:
            during.append([second, [{'op': 'svc', 'host': old.host,
                                     'n': 5}]])
        order = [{'op': 'delete', 'seq': old.seq}, nxt, req]
        if self.rng.random() < 0.3:
            order = [nxt, {'op': 'delete', 'seq': old.seq}, req]
        self.follow.extend(order[1:])
        self.follow.append({'op': 'svc', 'host': me, 'n': 5,
                            'during': during})
        return order[0]

    def g_delete_reply_lost(self, world):
        """While a host cleans an old container up, the reply of one of its
        deletes is lost (applied or not); before its next ZooKeeper call the
        host that waits for that node is woken and handles its request."""
        olds = [c for c in world.conts.values()
                if c.kind == 'svc' and c.present and world._valid(c) and
                world.hosts[c.host].proc is not None and
                not world._dir_pending(world.hosts[c.host].proc)]
        if not olds:
            return None
        old = self.rng.choice(olds)
        others = [n for n, h in sorted(world.hosts.items())
                  if n != old.host and h.proc is not None and
                  not world._dir_pending(h.proc)]
        if not others:
            return None
        new_host = self.rng.choice(others)
        # _safe_delete per path: get, get_children, delete
        at = 3 * self.rng.choice([1, 1, 1, 2, 3])
        if self.rng.random() < 0.2:
            at -= 1
        wake = [{'op': 'deliver', 'host': new_host, 'n': 9},
                {'op': 'svc', 'host': new_host, 'n': 5}]
        during = [[at, [{'op': 'conn_loss',
                         'applied': self.rng.random() < 0.75}]],
                  [at + 1, wake]]
        self.follow.extend([
            {'op': 'svc', 'host': new_host, 'n': 5},
            {'op': 'delete', 'seq': old.seq},
            {'op': 'svc', 'host': old.host, 'n': 5, 'during': during}])
        return self._request(world, old.inst, host=new_host)

    def g_ping_pong(self, world):
        """The instance goes from host A to host B, back to A and to B again
        without a service restart.  In the first hand-over A's clean-up runs
        while B's handler is between two ZooKeeper calls (after it has read
        the node as A's, before the watch it sets reads it again).  At the end
        the world is left to quiesce: B's last request must be registered."""
        olds = [c for c in world.conts.values()
                if c.kind == 'svc' and c.present and world._valid(c) and
                world.hosts[c.host].proc is not None and
                not world._dir_pending(world.hosts[c.host].proc)]
        if not olds:
            return None
        old = self.rng.choice(olds)
        others = [n for n, h in sorted(world.hosts.items())
                  if n != old.host and h.proc is not None and
                  not world._dir_pending(h.proc)]
        if not others:
            return None
        host_a, host_b = old.host, self.rng.choice(others)
        at = 3 if self.rng.random() < 0.8 else self.rng.randint(2, 7)
        svc_a = {'op': 'svc', 'host': host_a, 'n': 5}
        svc_b = {'op': 'svc', 'host': host_b, 'n': 5}
        wake_b = {'op': 'deliver', 'host': host_b, 'n': 9}
        k1 = self._request(world, old.inst, host=host_b)
        k2 = self._request(world, old.inst, host=host_a)
        k3 = self._request(world, old.inst, host=host_b)
        self.follow.extend([
            k1,
            dict(svc_b, during=[[at, [dict(svc_a)]]]),   # first hand-over
            dict(svc_a), dict(wake_b), dict(svc_b),      # k1 registers on B
            {'op': 'delete', 'seq': k1['seq']}, dict(svc_b),
            k2, dict(svc_a),                             # back on A
            k3, dict(svc_b),                             # B waits for A
            {'op': 'delete', 'seq': k2['seq']}, dict(svc_a),
            dict(wake_b), dict(svc_b),
            {'op': 'settle'}])
        return {'op': 'delete', 'seq': old.seq}

    def g_failed_reregistration(self, world):
        """Two containers of one instance have requests on one host (the old
        one awaits clean-up, the newer one is registered); the old request is
        evaluated again - replay by a service that was killed and re-attaches
        its session (zkid file), or the retry after a wait - and the reply of
        one of its ZooKeeper writes is lost."""
        rng = self.rng
        waiting = [c for c in world.conts.values()
                   if c.kind == 'svc' and c.present and c.waiting and
                   world.hosts[c.host].proc is not None and
                   not world._dir_pending(world.hosts[c.host].proc)]
        olds = [c for c in world.conts.values()
                if c.kind == 'svc' and c.present and world._valid(c) and
                world.hosts[c.host].proc is not None and
                not world._dir_pending(world.hosts[c.host].proc)]
        loss = {'op': 'conn_loss', 'applied': rng.random() < 0.5}
        at = rng.choice([1, 1, 1, 2, 3, 4, 5])
        if waiting and rng.random() < 0.5:
            # retry path: the old request owns /running and waits for a
            # foreign endpoint/identity; the newer one does not need them
            old = rng.choice(waiting)
            proc = world.hosts[old.host].proc
            blocked = world._blockers(old, proc.sid)
            owners = sorted({world._owner_host(world.zk.nodes[p].owner)
                             for p in blocked} - {None, old.host})
            if blocked and old.paths[0][1] not in blocked and owners:
                new = self._request(world, old.inst, host=old.host)
                new['eps'] = [e for e in new['eps'] if not any(
                    p.endswith(':%s:%s' % (e[3], e[0])) for p in blocked)]
                if any('/identity-groups/' in p for p in blocked):
                    new['group'] = None
                    new['identity'] = None
                self.follow.extend(
                    [{'op': 'svc', 'host': old.host, 'n': 5}] +
                    [{'op': 'expire', 'host': o} for o in owners] +
                    [{'op': 'deliver', 'host': old.host, 'n': 9},
                     {'op': 'svc', 'host': old.host, 'n': 5,
                      'during': [[at, [loss]]]}])
                return new
        cfg = self.config
        two_ids = [i for i in cfg['instances']
                   if cfg['specs'][i]['group'] and
                   len(cfg['specs'][i]['identities']) > 1]
        idle = [n for n, h in sorted(world.hosts.items())
                if h.proc is not None and not world._dir_pending(h.proc)]
        if two_ids and len(cfg['instances']) > 1 and len(idle) > 1 and \
                rng.random() < 0.6:
            # retry path built from scratch: another instance on another host
            # holds identity 0 of the shared group
            inst = rng.choice(two_ids)
            other_inst = rng.choice([i for i in cfg['instances']
                                     if i != inst])
            here, there = rng.sample(idle, 2)
            free = [c for c in world.conts.values()
                    if c.present and c.inst in (inst, other_inst)]
            if not free:
                holder = self._request(world, other_inst, host=there)
                holder['identity'] = 0
                old_req = self._request(world, inst, host=here)
                old_req['identity'] = 0
                new_req = self._request(world, inst, host=here)
                new_req['identity'] = cfg['specs'][inst]['identities'][1]
                self.follow.extend([
                    {'op': 'svc', 'host': there, 'n': 5},
                    old_req, {'op': 'svc', 'host': here, 'n': 5},
                    new_req, {'op': 'svc', 'host': here, 'n': 5},
                    {'op': 'delete', 'seq': holder['seq']},
                    {'op': 'svc', 'host': there, 'n': 5},
                    {'op': 'deliver', 'host': here, 'n': 9},
                    {'op': 'svc', 'host': here, 'n': 5,
                     'during': [[at, [loss]]]}])
                return holder
        if not olds:
            return None
        old = rng.choice(olds)
        new = self._request(world, old.inst, host=old.host)
        ids = [c.rsrc_id for c in world.conts.values()
               if c.host == old.host and c.kind == 'svc' and c.present]
        ids.append(rsrc_id_of(new['inst'], new['seq']))
        if rng.random() < 0.3:
            self.fsorder.shuffle(ids)
        self.follow.extend([
            {'op': 'svc', 'host': old.host, 'n': 5},
            {'op': 'kill', 'host': old.host},
            {'op': 'restart', 'host': old.host, 'order': ids,
             'during': [[at, [loss]]]}])
        return new

    def g_finish_races_create(self, world):
        """Two successive containers of one instance have their requests on
        one host and nobody holds the claims: both wait for a node of another
        host's session which then goes away, or the service is restarted and
        replays them.  The requests are (re)evaluated, and while one of these
        evaluations is between two ZooKeeper calls a client acts on the
        request directory - mostly: the finish of the container being
        evaluated deletes its request.  The world is then left to quiesce."""
        rng = self.rng
        cfg = self.config
        idle = [n for n, h in sorted(world.hosts.items())
                if h.proc is not None and not world._dir_pending(h.proc)]
        if not idle:
            return None
        here = rng.choice(idle)
        svc_here = {'op': 'svc', 'host': here, 'n': 5}
        at = rng.choice([1, 1, 1, 1, 2, 2, 3, 4])
        what = rng.choice(['finish', 'finish', 'finish', 'finish',
                           'sibling_finish', 'sibling_start'])
        races = [[at, [self._race_op(what)]]]
        if rng.random() < 0.15:
            races.append([at + rng.choice([1, 2, 3]), [self._race_op()]])
        tail_end = [dict(svc_here), dict(svc_here), dict(svc_here)]
        if rng.random() < 0.7:
            tail_end.append({'op': 'settle'})
        others = [n for n in idle if n != here]
        if others and rng.random() < 0.6:
            # both wait for the other host's node
            there = rng.choice(others)
            svc_there = {'op': 'svc', 'host': there, 'n': 5}
            hsid = world.hosts[there].proc.sid
            insts = []
            for inst in cfg['instances']:
                mine = [c for c in world.conts.values()
                        if c.inst == inst and c.present]
                held = [c for c in mine if c.host == there and
                        c.kind == 'svc' and c.acked_sid == hsid and
                        world._valid(c)]
                if not mine or (held and all(c.host == there for c in mine)):
                    insts.append((inst, held[-1] if held else None))
            if insts:
                inst, holder = rng.choice(insts)
                ops = []
                if holder is None:
                    hreq = self._request(world, inst, host=there)
                    ops += [hreq, dict(svc_there)]
                    hseq = hreq['seq']
                else:
                    hseq = holder.seq
                old = self._request(world, inst, host=here)
                new = self._request(world, inst, host=here)
                ops += [old, dict(svc_here), new, dict(svc_here)]
                if rng.random() < 0.5:
                    ops.append({'op': 'expire', 'host': there})
                else:
                    ops += [{'op': 'delete', 'seq': hseq}, dict(svc_there)]
                ops += [{'op': 'deliver', 'host': here, 'n': 9},
                        {'op': 'svc', 'host': here,
                         'n': rng.choice([1, 1, 2, 5]), 'during': races}]
                ops += tail_end
                self.follow.extend(ops[1:])
                return ops[0]
        # the service is restarted and replays both
        olds = [c for c in world.conts.values()
                if c.kind == 'svc' and c.present and c.host == here]
        ops = []
        if olds and rng.random() < 0.7:
            old = rng.choice(olds)
            inst, old_id = old.inst, old.rsrc_id
        else:
            inst = rng.choice(cfg['instances'])
            oreq = self._request(world, inst, host=here)
            old_id = rsrc_id_of(inst, oreq['seq'])
            ops += [oreq, dict(svc_here)]
        new = self._request(world, inst, host=here)
        ops.append(new)
        if rng.random() < 0.7:
            ops.append(dict(svc_here))
        ops.append({'op': rng.choice(['kill', 'kill', 'expire']),
                    'host': here})
        ids = [old_id, rsrc_id_of(inst, new['seq'])]
        rest = [c.rsrc_id for c in world.conts.values()
                if c.host == here and c.kind == 'svc' and c.present and
                c.rsrc_id != old_id]
        if rng.random() < 0.3:
            ids.reverse()
        if rng.random() < 0.5:
            ids = ids + rest
        else:
            ids = rest + ids
        ops.append({'op': 'restart', 'host': here, 'order': ids,
                    'during': races})
        ops += tail_end
        self.follow.extend(ops[1:])
        return ops[0]

    def g_restart_same_host(self, world):
        """The instance restarts on the same host: the new container
        registers before the old one is cleaned up."""
        cands = [c for c in world.conts.values()
                 if c.kind == 'svc' and c.present and
                 world.hosts[c.host].proc is not None]
        if not cands:
            return None
        old = self.rng.choice(cands)
        tail = [{'op': 'svc', 'host': old.host, 'n': 5}]
        mode = self.rng.choice(['plain', 'kill', 'expire', 'plain'])
        if mode == 'kill':
            tail += [{'op': 'kill', 'host': old.host}]
        elif mode == 'expire':
            tail += [{'op': 'expire', 'host': old.host}]
        self.follow.extend(tail)
        self.follow.append(('late', 'restart', old.host))
        self.follow.extend([{'op': 'delete', 'seq': old.seq},
                            {'op': 'svc', 'host': old.host, 'n': 5}])
        return self._request(world, old.inst, host=old.host)


LATE_KEYS = ('finish_races_create',)


def make_config(prop, tier, rng):
    big = tier == 'thorough'
    nhosts = rng.choice([2, 2, 2, 3])
    hosts = list(rng.choice(HOST_POOLS)[:nhosts])
    ninst = rng.choice([1, 1, 2])
    instances = ['proid1.web#%010d' % (i + 1) for i in range(ninst)]
    group = rng.choice([None, 'g0', 'g0'])
    specs = {}
    for inst in instances:
        neps = rng.choice([0, 1, 1, 2])
        eps = [[['http', 8000, 'tcp'], ['ssh', 22, 'tcp'],
                ['dns', 53, 'udp']][i] for i in range(neps)]
        specs[inst] = {'eps': eps, 'group': group,
                       'identities': rng.choice([[0], [0, 1], [0, None]])}
    wmul = {}
    for key, _w in OP_WEIGHTS:
        if key in LATE_KEYS:
            continue
        wmul[key] = rng.choice([0.0, 0.5, 1.0, 1.0, 2.0]) \
            if key not in ('create', 'svc', 'deliver', 'delete', 'restart') \
            else rng.choice([0.7, 1.0, 1.5])
    config = {'start': 1700000000.0 + rng.randint(0, 7 * 86400),
              'hosts': hosts, 'instances': instances, 'specs': specs,
              'n_ops': rng.randint(15, 120 if big else 60),
              'p_mid': rng.choice([0.0, 0.03, 0.08]),
              'p_delay': rng.choice([0.0, 0.0, 0.5, 0.8]),
              'docker': rng.random() < 0.4, 'wmul': wmul,
              'child_order': (rng.getrandbits(32) if rng.random() < 0.5
                              else None)}
    # swarm parameters added later are drawn after all the others, so that
    # the rest of the configuration of a seed stays what it was
    config['p_race'] = rng.choice([0.0, 0.05, 0.15])
    for key in LATE_KEYS:
        wmul[key] = rng.choice([0.0, 0.5, 1.0, 1.0, 2.0])
    return config


class PresenceSim(enginemod.Engine):
    name = 'presencesim'
    serves = ('C17',)
    real_components = (
        'treadmill.services.presence_service.PresenceResourceService '
        '(initialize, on_create_request, on_delete_request, _safe_create, '
        '_safe_delete, _watch; one object per service process)',
        'treadmill.services LinuxResourceService/ResourceService request '
        'plumbing (_load_impl, _on_created, _on_deleted, _check_requests, '
        'clt_new/del/update_request, retry_request/_update_request) and the '
        'real ResourceServiceClient.put/delete on a tmpfs tree',
        'treadmill.dirwatch.DirWatcher on real inotify',
        'kazoo.recipe.watchers.DataWatch (real recipe on the simulated client)',
        'treadmill.presence.EndpointPresence register_identity/running/'
        'endpoints, _create_ephemeral_with_retry; presence.kill_node -> '
        'unregister_running/unregister_endpoints/unregister_server; '
        'presence.register_server',
        'treadmill.trace.app.zk.publish and _unschedule',
        'treadmill.zkutils (create, put, update, get_with_metadata, '
        'ensure_deleted, ensure_exists, with_retry, exit_on_lost)',
        'treadmill.appcfg.app_name, treadmill.zknamespace',
    )
    stub_components = (
        'ZooKeeper: simkit.zk (single-copy, linearizable; sessions, '
        'ephemerals, one-shot watches queued per session and delivered when '
        'the op list says so)',
        'LinuxResourceService._run event loop (poll/eventfd/status socket/'
        'watchdog): the harness runs its prefix (initialize, DirWatcher, '
        '_check_requests, _on_created for each, synchronize) per restart op '
        'and process_events(n) + _check_requests per svc op',
        'glob order inside _base_service (request replay order of a starting '
        'service): sorted, then as the restart op says',
        'tempfile.mktemp inside _base_service: counter',
        'plugin_manager.load: resolved from entry_points.txt',
        'sysinfo.hostname / trace.app.zk._HOSTNAME: the host whose process is '
        'being stepped; context.GLOBAL.zk.conn: that process\' session',
        'clock (virtual, +10 ms per op); time.sleep in '
        'presence._create_ephemeral_with_retry is a simulator step (other '
        'sessions act as the op says)',
        'mtime of a request link: set by the harness to the virtual time of '
        'the request (the IN_ATTRIB this causes is removed from the queue)',
        'DirWatcher objects of dead simulated processes are reused (watch '
        'removed, kernel queue drained) instead of closed',
        'utils.sys_exit raises SimProcessExit (process death)',
        'kazoo.retry.KazooRetry runs un-stubbed but sleeps on the virtual '
        'clock, jitter fixed to 1.0',
        'lost replies: the next mutating call of a pre-empted handler raises '
        'ConnectionLoss, applied or not applied (simkit.zk fault_plan), as a '
        'nested {"op": "conn_loss"} at a pre-emption point',
        'scheduling granularity: before any ZooKeeper call of a service '
        'handler the op may let other hosts\' services run whole handlers, '
        'expire sessions, delete requests ("during": [[k, ops]]); a pre-empted '
        'process runs no second handler; nested handlers are not pre-empted '
        'again',
        'clients racing with a create handler: nested {"op": "req_race", '
        '"what": finish | sibling_finish | sibling_start} at a pre-emption '
        'point runs the real ResourceServiceClient.delete / put for the '
        'request in flight at that call / for another / for the next '
        'container of the same instance; the directory events it causes are '
        'queued by the real inotify behind the ones already read',
        'host names: a swarm parameter (pools with unrelated names and with '
        'names in a prefix relation, e.g. node1/node10, h.cell.co/h.cell.com)',
        'the scheduler master: a script that creates/deletes '
        '/placement/<host>/<instance>',
        'events_publisher directory loop: trace.app.zk.publish is called '
        'directly with the publishing host\'s session',
    )

    def level(self, prop):
        return 'exploration'

    def rule(self, prop):
        return (
            'seeded world per run (2-3 hosts = sessions, 1-2 instances, 0-2 '
            'endpoints, optional identity group, op-weight swarm); adaptive '
            'generator emits create/delete requests of successive containers '
            'of the same instance on either host, service turns (n request '
            'events), watch deliveries (n events), session expiry (also '
            'before the k-th ZooKeeper call of a handler), request deletion '
            'by the finishing container and request creation by the next '
            'container of the instance before the k-th ZooKeeper call of the '
            'create/retry/replay handler of that instance (own stream, '
            'p_race), service kill/'
            'restart with a recorded replay order, placement moves, trace '
            'events from owner and non-owner hosts, kill_node, docker-style '
            'EndpointPresence registrations whose sleeps interleave other '
            'ops; ends with restart of dead services and a settle phase. '
            'Oracle: ZooKeeper op log + tree + request history. '
            'non-trivial: a run in which a create request had to wait for a '
            'node owned by another session (distinct_nontrivial counts '
            'distinct such runs)')

    def assumptions(self, prop):
        return [
            'ZooKeeper is a single-copy linearizable store; watch events are '
            'delivered in order per session, at arbitrary later times',
            'service handlers (request events of svc/restart ops) can be '
            'pre-empted before any of their ZooKeeper calls by whole handlers '
            'of the other hosts\' services, session expiry, request deletion '
            '(also of the very request being handled) and creation by the '
            'containers\' clients, and placement moves; watch callbacks, '
            'publish and kill_node run '
            'atomically; a nested handler is not pre-empted again',
            'a killed service process resumes its session on restart (zkid '
            'file) if the session is still alive, otherwise it gets a new one',
            'clause (2), persistent nodes: owner 0 is not "another session"; '
            'a persistent presence node can only stem from the service itself '
            'and is reported at its creation by clause (1)',
            'presence.kill_node (admin tool) is the one intended deletion of '
            'other sessions\' nodes; it may remove registrations of the host '
            'being killed only',
            'bounded liveness is checked at quiescence after faults stop '
            '(at most %d rounds of deliver-everything + handle-every-request-'
            'event; one watch event plus one retry resolve one wait): a '
            'request of a live service with no foreign-owned node left in '
            'its way must be acknowledged' % SETTLE_ROUNDS,
            'only the first violation of a run is reported',
        ]

    def quick_runs(self, prop):
        return 1920

    def make_config(self, prop, tier, rng):
        return make_config(prop, tier, rng)

    def shrink_candidates(self, config, ops):
        """After ddmin: strip injections and nested ops that are not needed
        (greedy, re-executing; yields the one simplified list)."""
        base = self.execute('C17', config, 0, ops=ops)
        if base.violation is None:
            return
        sig = base.violation['sig']

        def same(cand):
            res = self.execute('C17', config, 0, ops=cand)
            return res.violation is not None and res.violation['sig'] == sig

        import copy
        cur = copy.deepcopy(ops)
        changed = False
        for i, op in enumerate(cur):
            for key in ('mid', 'sleeps', 'during'):
                if op.get(key):
                    cand = copy.deepcopy(cur)
                    del cand[i][key]
                    if same(cand):
                        cur = cand
                        changed = True
            # single pre-emption points / single ops inside them
            j = 0
            while j < len(cur[i].get('during') or []):
                cand = copy.deepcopy(cur)
                del cand[i]['during'][j]
                if same(cand):
                    cur = cand
                    changed = True
                    continue
                k = 0
                while k < len(cur[i]['during'][j][1]) and \
                        len(cur[i]['during'][j][1]) > 1:
                    cand = copy.deepcopy(cur)
                    del cand[i]['during'][j][1][k]
                    if same(cand):
                        cur = cand
                        changed = True
                    else:
                        k += 1
                j += 1
        if changed:
            yield config, cur

    def execute(self, prop, config, seed, ops=None, keep_log=False):
        res = enginemod.Result()
        log = logmod.EventLog(keep=keep_log)
        log.ev('seed', seed, prop)
        clock = clockmod.Clock(config['start'])
        clock.install()
        root = fsseam.make_scratch()
        patches = fsseam.Patches()
        saved_conn = context.GLOBAL.zk._conn
        world = None
        try:
            world = World(config, clock, log, root, patches)
            t_begin = clock.peek()
            executed = []
            n = 0

            def do(op):
                nonlocal n
                n += 1
                world.step = n
                executed.append(op)
                log.ev('op', {k: v for k, v in op.items() if k != 'sleeps'})
                world.apply(op)
                world.after_op()

            if ops is None:
                gen = Generator(config, rngmod.Streams(seed))
                world.sleep_chooser = gen.sleep_ops
                for name in config['hosts']:
                    do({'op': 'restart', 'host': name, 'order': []})
                for inst in config['instances']:
                    do({'op': 'place', 'inst': inst,
                        'host': gen.rng.choice(config['hosts'])})
                while world.violation is None and n < config['n_ops']:
                    op = gen.next_op(world)
                    if isinstance(op, tuple):
                        # ('late', 'restart', host): built when it is due
                        op = gen.g_restart(world, op[2]) \
                            if world.hosts[op[2]].proc is None else None
                        if op is None:
                            continue
                    do(op)
                if world.violation is None:
                    for name in config['hosts']:
                        if world.hosts[name].proc is None:
                            do(gen.g_restart(world, name))
                        if world.violation is not None:
                            break
                if world.violation is None:
                    do({'op': 'settle'})
            else:
                for op in ops:
                    if world.violation is not None:
                        break
                    if isinstance(op, dict):
                        do(op)
            res.ops = executed
            res.violation = world.violation
            res.steps = n
            res.sim_s = clock.peek() - t_begin
            res.faults = dict(world.faults)
            res.probes = dict(world.probes)
            for key, val in world.oracle.counts.items():
                res.probes['oracle_' + key] = val
            res.extra = dict(world.unexpected)
            res.fps = world.fps
            res.nontrivial = world.probes['create_waited_for_foreign_node']
            res.trace_fp = logmod.fingerprint(executed)
            if world.violation is not None:
                log.ev('violation', world.violation['sig'])
            res.digest = log.digest()
            res.log_lines = log.lines if keep_log else None
        finally:
            if world is not None:
                world.close()
            clock.on_sleep = None
            patches.undo()
            context.GLOBAL.zk._conn = saved_conn
            clock.uninstall()
            fsseam.remove_scratch(root)
        return res


ENGINE = PresenceSim()
