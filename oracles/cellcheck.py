"""Oracles for C01-C08, evaluated around one real cell.schedule() call.

Each check_* function returns None (held) or (signature, detail).  They are
written to demand no more than the property statement (DESIGN.md section 4).
Everything is recomputed from the leaves of the topology; aggregates kept by
the scheduler are only ever compared against the recount, never trusted.
"""

import math
import sys

import simkit  # noqa: F401

from treadmill import scheduler

from . import cellobs

UNPLACED = sys.maxsize
DIMS = ('memory', 'cpu', 'disk')


class AppSnap:
    __slots__ = ('server', 'expiry', 'identity', 'renew', 'unschedule',
                 'blacklisted', 'evicted', 'priority', 'order')

    def __init__(self, app):
        self.server = app.server
        self.expiry = app.placement_expiry
        self.identity = app.identity
        self.renew = app.renew
        self.unschedule = app.unschedule
        self.blacklisted = app.blacklisted
        self.evicted = app.evicted
        self.priority = app.priority
        self.order = app.global_order


def snapshot_apps(cell):
    return {name: AppSnap(app) for name, app in cell.apps.items()}


def snapshot_servers(cell):
    """name -> (state value, since) for servers that are in the tree."""
    out = {}
    for name, srv in cellobs.leaves(cell).items():
        out[name] = (srv.state.value, srv.get_state()[1])
    return out


class CycleCtx:
    """Everything the oracles may look at for one cycle."""

    def __init__(self, cell, truth):
        self.cell = cell
        self.truth = truth
        self.pre = None
        self.post = None
        self.pre_srv = None
        self.t0 = None
        self.t1 = None
        self.rec = None
        self.placement = None
        self._leaves = None
        self._rankmap = None

    def leaves(self):
        if self._leaves is None:
            self._leaves = cellobs.leaves(self.cell)
        return self._leaves

    def rankmap(self):
        """app -> (rank, util_before, util_after, running-at-queue-time)."""
        if self._rankmap is None:
            out = {}
            for _label, entries in self.rec.entries:
                for ent in entries:
                    out[ent[5]] = ent
            self._rankmap = out
        return self._rankmap

    def cap_status(self):
        """app -> 'inside' | 'beyond' | 'edge' | 'unknown': is the instance
        over its allocation's utilisation cap?  Computed by the harness from
        the allocation as it declared it (reservation, cap) and the declared
        demands, cumulated in the order the instances of the allocation
        appear in this cycle's queue - not read from the rank the scheduler
        gave the instance."""
        if getattr(self, '_capstat', None) is not None:
            return self._capstat
        out = {}
        eps = 2.220446049250313e-16
        for _label, entries in self.rec.entries:
            per_alloc = {}
            for ent in entries:
                per_alloc.setdefault(self.truth.alloc_of(ent[5]),
                                     []).append(ent[5])
            for apath, names in per_alloc.items():
                info = self.truth.alloc_info(apath)
                acc = [0.0, 0.0, 0.0]
                for name in names:
                    dem = self.truth.demand_of(name)
                    snap = self.pre.get(name)
                    if info is None or dem is None or snap is None:
                        out[name] = 'unknown'
                        continue
                    for d in range(3):
                        acc[d] += dem[d]
                    maxu = info['maxu']
                    if maxu is None:
                        out[name] = 'inside'
                    elif snap.priority == 0:
                        out[name] = 'beyond'
                    else:
                        res = info['reserved']
                        util = max((acc[d] - res[d]) / (res[d] + eps)
                                   for d in range(3))
                        if util > maxu - 1 + 1e-6:
                            out[name] = 'beyond'
                        elif util < maxu - 1 - 1e-6:
                            out[name] = 'inside'
                        else:
                            out[name] = 'edge'
        self._capstat = out
        return out


# ---------------------------------------------------------------------------
# C01

def check_c01(ctx):
    cell = ctx.cell
    leaves = ctx.leaves()
    seen = {}
    for sname in sorted(leaves):
        srv = leaves[sname]
        cap = ctx.truth.capacity_of(sname)
        if cap is None:
            cap = [float(x) for x in srv.init_capacity]
        total = [0.0, 0.0, 0.0]
        for aname, app in srv.apps.items():
            if aname in seen:
                return ('C01:two-servers',
                        '%s is in apps of %s and %s' % (aname, seen[aname],
                                                        sname))
            seen[aname] = sname
            if app.server != sname:
                return ('C01:view-mismatch:server-has-app',
                        '%s in %s.apps but app.server=%r' % (aname, sname,
                                                             app.server))
            if cell.apps.get(aname) is not app:
                return ('C01:view-mismatch:ghost-app',
                        '%s on %s is not the scheduled instance of that name'
                        % (aname, sname))
            dem = ctx.truth.demand_of(aname)
            if dem is None:
                dem = [float(x) for x in app.demand]
            for d in range(3):
                total[d] += dem[d]
        for d in range(3):
            tol = 1e-9 * max(1.0, abs(cap[d]))
            if total[d] > cap[d] + tol:
                return ('C01:oversubscribed:%s' % DIMS[d],
                        '%s: sum of demand %r > capacity %r (apps %s)' % (
                            sname, total, cap, sorted(srv.apps)))
            free = float(srv.free_capacity[d])
            want = cap[d] - total[d]
            if cap[d] != math.floor(cap[d]):
                # a declared capacity that is not a whole number of the
                # reporting unit: the report may not overstate what is left
                # and is less than one unit below it
                want = math.floor(want + tol)
            if abs(free - want) > 1e-9 * max(1.0, abs(cap[d])):
                return ('C01:free-capacity-drift:%s' % DIMS[d],
                        '%s: free_capacity %r != capacity %r - placed %r' % (
                            sname, [float(x) for x in srv.free_capacity],
                            cap, total))
    for aname, app in cell.apps.items():
        if app.server is not None:
            if app.server not in leaves:
                return ('C01:view-mismatch:server-gone',
                        '%s.server=%s which is not in the cell' % (
                            aname, app.server))
            if aname not in leaves[app.server].apps:
                return ('C01:view-mismatch:app-has-server',
                        '%s.server=%s but the server does not list it' % (
                            aname, app.server))
    return None


# ---------------------------------------------------------------------------
# C03

def _valid_for(ctx, aname, sname):
    """Label/traits validity of server for app, from harness truth."""
    custom = getattr(ctx.truth, 'valid_for', None)
    if custom is not None:
        return custom(aname, sname)
    label = ctx.truth.partition_of(aname)
    need = ctx.truth.traits_of(aname)
    if ctx.truth.srv_label(sname) != label:
        return 'partition'
    if (ctx.truth.srv_traits(sname) & need) != need:
        return 'traits'
    return None


def check_c03(ctx):
    leaves = ctx.leaves()
    provs = {}
    for ev in ctx.rec.events:
        if ev[0] == 'put':
            provs[(ev[1], ev[2])] = ev[3]
    for aname in sorted(ctx.post):
        post = ctx.post[aname]
        pre = ctx.pre.get(aname)
        if post.server is None:
            continue
        before = pre.server if pre is not None else None
        sname = post.server
        new = (before != sname)
        renewed = (not new and pre is not None and pre.expiry != post.expiry)
        if new:
            prov = provs.get((aname, sname), 'unknown')
            state = ctx.pre_srv.get(sname, (None,))[0]
            state_fn = getattr(ctx.truth, 'state_of', None)
            if state == 'up' and state_fn is not None:
                # what the scheduler believes is not enough: the state the
                # master itself recorded for the server must agree
                state = state_fn(sname) or state
            if state != 'up':
                return ('C03:assigned-to-%s-server:prov=%s' % (state, prov),
                        '%s: %r -> %s which is %s' % (aname, before, sname,
                                                      state))
            bad = _valid_for(ctx, aname, sname)
            if bad:
                return ('C03:assigned-wrong-%s:prov=%s' % (bad, prov),
                        '%s (partition %s, traits %s) assigned to %s '
                        '(partition %s, traits %s)' % (
                            aname, ctx.truth.partition_of(aname),
                            ctx.truth.traits_of(aname), sname,
                            ctx.truth.srv_label(sname),
                            ctx.truth.srv_traits(sname)))
        if new or renewed:
            lease = ctx.truth.lease_of(aname)
            if lease and sname in leaves:
                vu = leaves[sname].valid_until
                # (the expiry is computed from a clock read a few ticks after
                # the one the lifetime check used: 1 ms of slack)
                if not post.expiry <= vu + 1e-3:
                    prov = provs.get((aname, sname), 'renew' if renewed
                                     else 'unknown')
                    if new and prov == 'restore':
                        # restore after a failed attempt elsewhere puts the
                        # instance back where it was: not an assignment.
                        continue
                    return ('C03:lease-beyond-reboot:%s' % (
                        'renewed' if renewed else 'prov=' + prov),
                            '%s lease %s: expiry %r not before valid_until %r '
                            'of %s' % (aname, lease, post.expiry, vu, sname))
    # post-state clause
    for aname in sorted(ctx.post):
        post = ctx.post[aname]
        if post.server is None or post.server not in leaves:
            continue
        bad = _valid_for(ctx, aname, post.server)
        if bad:
            pre = ctx.pre.get(aname)
            kind = 'stays' if (pre is not None and
                               pre.server == post.server) else 'new'
            return ('C03:post-state-wrong-%s:%s' % (bad, kind),
                    '%s (partition %s, traits %s) is on %s (partition %s, '
                    'traits %s) after the cycle' % (
                        aname, ctx.truth.partition_of(aname),
                        ctx.truth.traits_of(aname), post.server,
                        ctx.truth.srv_label(post.server),
                        ctx.truth.srv_traits(post.server)))
    return None


# ---------------------------------------------------------------------------
# C04

def recount_affinity(cell):
    """node object id -> {affinity: count}, recounted from the leaves.  An
    instance counts as placed on a server if either view says so: the
    server lists it, or the instance names that server as its own (what gets
    published); an instance is counted once."""
    counts = {}
    leaves = cellobs.leaves(cell)
    on = {}
    for sname, srv in leaves.items():
        for aname, app in srv.apps.items():
            on.setdefault(sname, {})[aname] = app
    for aname, app in cell.apps.items():
        if app.server is not None and app.server in leaves:
            on.setdefault(app.server, {}).setdefault(aname, app)
    for sname, apps in on.items():
        srv = leaves[sname]
        for app in apps.values():
            for node in cellobs.ancestors(srv):
                per = counts.setdefault(id(node), {})
                per[app.affinity.name] = per.get(app.affinity.name, 0) + 1
    return counts


def check_c04(ctx):
    cell = ctx.cell
    counts = recount_affinity(cell)
    nodes = cellobs.all_nodes(cell)
    nodes.sort(key=lambda n: (str(n.level), n.name))
    level_fn = getattr(ctx.truth, 'level_of', None)
    for node in nodes:
        per = counts.get(id(node), {})
        # (master level: the level a node stands for is read off its name by
        # the harness - "<level>:<id>" - not taken from the loaded object)
        level = level_fn(node) if level_fn is not None else node.level
        for aff in sorted(per):
            limit = ctx.truth.limits_of(aff).get(level)
            if limit is not None and per[aff] > limit:
                # provenance: which path put an instance of this affinity
                # under this node in this cycle
                under = set(cellobs_leaf_names(node))
                provs = sorted({ev[3] for ev in ctx.rec.events
                                if ev[0] == 'put' and ev[2] in under and
                                ctx.truth.affinity_of(ev[1]) == aff})
                return ('C04:limit-exceeded:level=%s:prov=%s' % (
                    node.level, '+'.join(provs) or 'none'),
                        '%s %s: %d instances of affinity %s, limit %s' % (
                            node.level, node.name, per[aff], aff, limit))
        kept = {k: v for k, v in node.affinity_counters.items() if v != 0}
        if kept != per:
            return ('C04:counter-drift:level=%s' % node.level,
                    '%s %s: affinity_counters %r, true counts %r' % (
                        node.level, node.name, kept, per))
    return None


def cellobs_leaf_names(node):
    if isinstance(node, scheduler.Server):
        return [node.name]
    out = []
    stack = [node]
    while stack:
        cur = stack.pop()
        for child in cur.children:
            if child is None:
                continue
            if isinstance(child, scheduler.Server):
                out.append(child.name)
            else:
                stack.append(child)
    return out


# ---------------------------------------------------------------------------
# C05

def check_c05(ctx):
    cell = ctx.cell
    groups = {}
    for aname in sorted(cell.apps):
        app = cell.apps[aname]
        if not app.identity_group:
            continue
        groups.setdefault(app.identity_group, []).append(app)
    for gname in sorted(groups):
        count = ctx.truth.group_count(gname)
        held = {}
        for app in groups[gname]:
            if app.server is not None:
                if app.identity is None:
                    return ('C05:placed-without-identity',
                            '%s placed on %s, group %s, identity None' % (
                                app.name, app.server, gname))
                if app.identity in held:
                    return ('C05:duplicate-identity',
                            '%s and %s both hold identity %s of %s' % (
                                held[app.identity], app.name, app.identity,
                                gname))
                held[app.identity] = app.name
                if app.identity >= count or app.identity < 0:
                    return ('C05:identity-out-of-range',
                            '%s holds %s, group %s count %s' % (
                                app.name, app.identity, gname, count))
        for app in groups[gname]:
            if app.server is None and app.identity is not None:
                why = ctx.truth.why_unplaced(app, ctx)
                return ('C05:unplaced-holds-identity:%s' % why,
                        '%s is not placed but holds identity %s of %s' % (
                            app.name, app.identity, gname))
        group = cell.identity_groups.get(gname)
        if group is not None:
            both = sorted(set(group.available) & set(held))
            if both:
                return ('C05:held-identity-available',
                        'group %s: identities %r are held (%s) and also in '
                        'the free set' % (gname, both,
                                          [held[i] for i in both]))
            holders = {app.identity for app in groups[gname]
                       if app.identity is not None}
            lost = sorted(i for i in range(count)
                          if i not in group.available and i not in holders)
            if lost:
                return ('C05:identity-lost',
                        'group %s count %s: identities %r are neither held '
                        'nor free' % (gname, count, lost))
            bad = sorted(i for i in group.available if i >= count or i < 0)
            if bad:
                return ('C05:free-identity-out-of-range',
                        'group %s count %s has %r in the free set' % (
                            gname, count, bad))
    return None


# ---------------------------------------------------------------------------
# C06

def check_c06(ctx):
    cell = ctx.cell
    rec = ctx.rec
    # (a) every instance exactly once
    seen = {}
    for label, names in rec.queues:
        for name in names:
            if name in seen:
                return ('C06:instance-twice-in-queues',
                        '%s appears in queue of %s and %s' % (name, seen[name],
                                                              label))
            seen[name] = label
    missing = sorted(set(ctx.pre) - set(seen))
    if missing:
        return ('C06:instance-not-considered',
                '%s scheduled but in no partition queue' % missing[:5])
    extra = sorted(set(seen) - set(ctx.pre))
    if extra:
        return ('C06:unknown-instance-in-queue', '%s' % extra[:5])
    for label, names in rec.queues:
        for name in names:
            if ctx.truth.partition_of(name) != label:
                return ('C06:instance-in-wrong-partition-queue',
                        '%s of partition %s in queue of %s' % (
                            name, ctx.truth.partition_of(name), label))

    for (label, entries), (_l2, names) in zip(rec.entries, rec.queues):
        if [e[5] for e in entries] != names:
            return ('C06:queue-differs-from-scored-order',
                    'partition %s' % label)
        # (b) rank non-decreasing
        prev = None
        for ent in entries:
            if prev is not None and ent[0] < prev[0]:
                return ('C06:rank-order',
                        '%s (rank %s) after %s (rank %s) in %s' % (
                            ent[5], ent[0], prev[5], prev[0], label))
            prev = ent
        # (d) priority-0 after all others of the same rank
        zero_seen = {}
        for ent in entries:
            prio = ctx.pre[ent[5]].priority
            if prio == 0:
                zero_seen.setdefault(ent[0], ent[5])
            elif ent[0] in zero_seen:
                return ('C06:priority-zero-not-last',
                        '%s (priority %s) follows priority-0 %s at rank %s' % (
                            ent[5], prio, zero_seen[ent[0]], ent[0]))
        # (d') the same, reading "rank" as the rank of the allocation: a
        # priority-0 instance that is scheduled at all is not ahead of a
        # non-zero-priority instance of an allocation of the same rank
        zero_nominal = {}
        for ent in entries:
            if ent[0] == UNPLACED:
                continue
            info = ctx.truth.alloc_info(ctx.truth.alloc_of(ent[5]))
            if info is None:
                continue
            prio = ctx.pre[ent[5]].priority
            if prio == 0:
                zero_nominal.setdefault(info['rank'], ent)
            elif info['rank'] in zero_nominal:
                first = zero_nominal[info['rank']]
                return ('C06:priority-zero-ahead-of-same-rank-allocation',
                        '%s (priority 0, queued with rank %s) precedes %s '
                        '(priority %s, queued with rank %s); both allocations '
                        'have rank %s' % (first[5], first[0], ent[5], prio,
                                          ent[0], info['rank']))
        # (c), (e), (f) per allocation, in queue order
        per_alloc = {}
        for ent in entries:
            per_alloc.setdefault(ctx.truth.alloc_of(ent[5]), []).append(ent)
        for apath in sorted(per_alloc, key=repr):
            ents = per_alloc[apath]
            info = ctx.truth.alloc_info(apath)
            keys = []
            for ent in ents:
                snap = ctx.pre[ent[5]]
                running = 0 if ent[6] else 1
                keys.append((-snap.priority, running, snap.order))
            for i in range(1, len(keys)):
                if keys[i] < keys[i - 1]:
                    return ('C06:allocation-order',
                            'allocation %s: %s %r precedes %s %r' % (
                                '/'.join(apath), ents[i - 1][5], keys[i - 1],
                                ents[i][5], keys[i]))
            if info is None:
                continue
            res = info['reserved']
            rank, adj, maxu = info['rank'], info['adj'], info['maxu']
            acc = [0.0, 0.0, 0.0]
            for ent in ents:
                name = ent[5]
                dem = ctx.truth.demand_of(name)
                before = list(acc)
                for d in range(3):
                    acc[d] += dem[d]
                if ctx.pre[name].priority == 0:
                    continue
                got = ent[0]
                eps = 2.220446049250313e-16
                util_after = max((acc[d] - res[d]) / (res[d] + eps)
                                 for d in range(3))
                beyond = maxu is not None and util_after > maxu - 1 + 1e-6
                inside = maxu is None or util_after < maxu - 1 - 1e-6
                if beyond:
                    if got != UNPLACED:
                        return ('C06:beyond-cap-but-ranked',
                                '%s in %s: utilisation %.6g > cap %s - 1 but '
                                'rank %s' % (name, '/'.join(apath),
                                             util_after, maxu, got))
                    if ctx.post[name].server is not None:
                        return ('C06:beyond-cap-but-placed',
                                '%s in %s placed on %s' % (
                                    name, '/'.join(apath),
                                    ctx.post[name].server))
                    continue
                if inside and got == UNPLACED:
                    return ('C06:inside-cap-but-unplaced-rank',
                            '%s in %s: utilisation %.6g < cap %s - 1' % (
                                name, '/'.join(apath), util_after, maxu))
                if not inside:
                    continue
                strictly_inside = all(acc[d] < res[d] for d in range(3))
                exhausted = any(before[d] >= res[d] for d in range(3))
                if strictly_inside and got != rank - adj:
                    return ('C06:within-reservation-not-boosted',
                            '%s in %s: cumulative %r inside reservation %r, '
                            'rank %s, expected %s' % (
                                name, '/'.join(apath), acc, res, got,
                                rank - adj))
                if exhausted and got != rank:
                    return ('C06:beyond-reservation-wrong-rank',
                            '%s in %s: reservation %r exhausted before it '
                            '(%r), rank %s, expected %s' % (
                                name, '/'.join(apath), res, before, got, rank))
    return None


# ---------------------------------------------------------------------------
# C07

def _identity_valid(ctx, name, snap):
    if snap.identity is None:
        return True
    group = ctx.truth.group_of(name)
    if group is None:
        return True
    return 0 <= snap.identity < ctx.truth.group_count(group)


def _within_cap(ctx, rank, name):
    """Not over the utilisation cap, by the harness's own computation (the
    scheduler's rank decides only when the harness cannot tell)."""
    status = ctx.cap_status().get(name, 'unknown')
    if status == 'unknown':
        return rank.get(name, (UNPLACED,))[0] != UNPLACED
    return status == 'inside'


def check_c07(ctx):
    rank = ctx.rankmap()
    # an instance that lost its placement before the queue was run (server
    # down past retention, blacklist, invalidated identity) and is placed
    # again - possibly on the same server - gained a placement in this cycle
    pre_removed = {ev[1] for ev in ctx.rec.events
                   if ev[0] == 'remove' and ev[3] == 'pre'}
    gained = set()
    for name, post in ctx.post.items():
        pre = ctx.pre.get(name)
        before = pre.server if pre is not None else None
        if post.server is not None and (post.server != before or
                                        name in pre_removed):
            gained.add(name)
    for label, names in ctx.rec.queues:
        someone_gained = False
        for name in names:
            pre = ctx.pre.get(name)
            post = ctx.post.get(name)
            if pre is None or post is None:
                if name in gained:
                    someone_gained = True
                continue
            bl_fn = getattr(ctx.truth, 'blacklisted', None)
            state_fn = getattr(ctx.truth, 'state_of', None)
            # (master level: blacklisted by the patterns the master was
            # shown, not by the flag it set on the instance; healthy only if
            # the state the master recorded agrees)
            healthy = (
                ctx.pre_srv.get(pre.server, (None,))[0] == 'up' and
                (state_fn is None or
                 state_fn(pre.server) in (None, 'up')))
            looked = getattr(ctx.truth, 'looked_present', None)
            if not healthy and looked is not None and \
                    pre.server in looked and \
                    pre.server not in ctx.truth.admin_down and \
                    pre.server not in ctx.truth.frozen and \
                    ctx.pre_srv.get(pre.server, (None,))[0] != 'frozen':
                # its presence node was there when the master last looked
                # and nothing has been said about it since: healthy,
                # whatever the model made of a stale snapshot
                healthy = True
            protected = (
                pre.server is not None and
                healthy and
                not (bl_fn(name) if bl_fn is not None
                     else pre.blacklisted) and
                _within_cap(ctx, rank, name) and
                _identity_valid(ctx, name, pre) and
                not pre.renew and
                _valid_for(ctx, name, pre.server) is None)
            if protected and post.server != pre.server and not someone_gained:
                kind = 'evicted' if post.server is None else 'moved'
                return ('C07:%s-without-gain-ahead' % kind,
                        '%s was on up server %s, now %r; no instance ahead of '
                        'it in the queue of %s gained a placement' % (
                            name, pre.server, post.server, label))
            if name in gained:
                someone_gained = True
    return None


# ---------------------------------------------------------------------------
# C08

def check_c08(ctx):
    rank = ctx.rankmap()
    t0, t1 = ctx.t0, ctx.t1
    for name in sorted(ctx.pre):
        pre = ctx.pre[name]
        post = ctx.post.get(name)
        if post is None:
            continue
        # blacklisted: never placed after a cycle
        bl_fn = getattr(ctx.truth, 'blacklisted', None)
        if bl_fn is not None:
            # (master level: by the patterns the master was shown, not by
            # the flag it set on the instance)
            banned = bl_fn(name)
        else:
            banned = pre.blacklisted and post.blacklisted
        if banned and post.server is not None:
            return ('C08:blacklisted-placed',
                    '%s is blacklisted but on %s after the cycle' % (
                        name, post.server))
        # no new instance on a frozen or down server
        if post.server is not None and post.server != pre.server:
            state = ctx.pre_srv.get(post.server, (None,))[0]
            state_fn = getattr(ctx.truth, 'state_of', None)
            if state == 'up' and state_fn is not None:
                state = state_fn(post.server) or state
            if state in ('down', 'frozen'):
                return ('C08:placed-on-%s-server' % state,
                        '%s: %r -> %s which is %s' % (name, pre.server,
                                                      post.server, state))
        if pre.server is None or pre.server not in ctx.pre_srv:
            continue
        state = ctx.pre_srv[pre.server][0]
        # narrowing (documented): an instance whose allocation was moved to
        # another partition / other traits is outside C08's quantifier and is
        # governed by C03 (it must leave that server).
        # (a pending lease renewal is C07's listed exception as well: the
        # renewal path may move the instance; nothing in this snapshot sets
        # the flag outside the harness's one-shot renew op)
        eligible = (not pre.blacklisted and
                    _within_cap(ctx, rank, name) and
                    _identity_valid(ctx, name, pre) and
                    not pre.renew and
                    _valid_for(ctx, name, pre.server) is None)
        if not eligible:
            continue
        told_gone = None
        absent_fn = getattr(ctx.truth, 'absent_interval', None)
        if state != 'down' and absent_fn is not None:
            # master level: the master has been told that the server is gone
            # (presence snapshot handled) and nothing changed its state
            # since; the server went down then, even if the model did not
            # take note
            told_gone = absent_fn(pre.server)
            if told_gone is not None:
                state = 'down'
        if state == 'down':
            interval = told_gone or ctx.truth.down_interval(pre.server)
            if interval is None:
                continue
            smin, smax = interval
            retention = ctx.truth.retention_of(name)
            if retention is None:
                retention = 0
            # the server went down at some instant in [smin, smax]
            if smin + retention > t1 and post.server != pre.server:
                return ('C08:lost-placement-within-retention',
                        '%s on down server %s (down since >= %.3f, retention '
                        '%s, cycle ended %.3f) is now %r' % (
                            name, pre.server, smin, retention, t1,
                            post.server))
            if smax + retention <= t0 and post.server == pre.server:
                return ('C08:kept-placement-beyond-retention',
                        '%s still on down server %s (down since <= %.3f, '
                        'retention %s, cycle started %.3f)' % (
                            name, pre.server, smax, retention, t0))
        elif state == 'frozen':
            marked_fn = getattr(ctx.truth, 'marked', None)
            if marked_fn is not None:
                # the harness's own record of explicit marks, not the flag
                marked = marked_fn(name, pre.server)
            else:
                marked = pre.unschedule
            if (not marked and not pre.renew and
                    post.server != pre.server):
                return ('C08:frozen-server-lost-instance',
                        '%s on frozen server %s not marked for unscheduling '
                        'is now %r' % (name, pre.server, post.server))
    return None


CHECKS = {
    'C01': check_c01,
    'C03': check_c03,
    'C04': check_c04,
    'C05': check_c05,
    'C06': check_c06,
    'C07': check_c07,
    'C08': check_c08,
}
