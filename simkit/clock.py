"""Virtual clock (DESIGN.md 2.2).

Replaces time.time / time.monotonic / time.sleep for the duration of a run.
Reads are strictly increasing (a model of elapsed time: a frozen clock would
create ties in scheduler._global_order() that cannot occur in production).
Time is kept as an integer number of microseconds so that it is exact and
`int(time.time() * 1000000)` is strictly increasing between reads.
"""

import time

from . import HarnessError

TICK_US = 8


class Clock:
    def __init__(self, start=1700000000.0):
        self.us = int(start * 1000000)
        self.on_sleep = None
        self._installed = False
        self._saved = None
        self.reads = 0

    # -- what the code under test sees
    def time(self):
        self.us += TICK_US
        self.reads += 1
        return self.us / 1000000.0

    def monotonic(self):
        return self.time()

    def sleep(self, seconds):
        if seconds and seconds > 0:
            self.us += int(seconds * 1000000)
        if self.on_sleep is not None:
            self.on_sleep(seconds)

    # -- what the harness uses (no tick)
    def peek(self):
        return self.us / 1000000.0

    def advance(self, seconds):
        if seconds < 0:
            raise HarnessError('clock cannot go backwards')
        self.us += int(round(seconds * 1000000))

    def set_at_least(self, when):
        us = int(round(when * 1000000))
        if us > self.us:
            self.us = us

    def install(self):
        if self._installed:
            raise HarnessError('clock already installed')
        self._saved = (time.time, time.monotonic, time.sleep)
        time.time = self.time
        time.monotonic = self.monotonic
        time.sleep = self.sleep
        self._installed = True
        return self

    def uninstall(self):
        if self._installed:
            time.time, time.monotonic, time.sleep = self._saved
            self._installed = False

    def __enter__(self):
        return self.install()

    def __exit__(self, *exc):
        self.uninstall()
        return False
