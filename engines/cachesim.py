"""cachesim: the real node event manager (treadmill.eventmgr.EventMgr) mirroring
a simulated ZooKeeper into a real cache directory, with a fault point at every
mutating file-system call (C12).

Real: EventMgr.__init__/run (the whole `while True` loop, by inversion of
control: the patched time.sleep *is* the simulator), its watch closures
(_server_presence_watch, _app_watch, _check_placement), _synchronize, _cache,
_cache_notify, fs.write_safe / fs.rm_safe / fs.replace, zkutils.get /
get_with_metadata / exit_on_lost, utils.exit_on_unhandled, yamlwrapper.dump,
appenv.AppEnvironment, watchdog.Watchdog, the real kazoo DataWatch /
ChildrenWatch recipes, PyYAML.
Simulated: ZooKeeper (simkit.zk), the clock, the file-system seam
(simkit.fsfault) in front of a real tmpfs directory, process death.
"""

import json
import os
import sys
import traceback

import yaml as _pyyaml

import simkit
from simkit import SimCrash, SimDone, SimProcessExit, HarnessError
from simkit import clock as clockmod
from simkit import engine as enginemod
from simkit import fsfault
from simkit import fsseam
from simkit import log as logmod
from simkit import rng as rngmod
from simkit import zk as zkmod

import kazoo.exceptions as kexc

from treadmill import context
from treadmill import eventmgr
from treadmill import fs as tm_fs
from treadmill import utils
from treadmill import zknamespace as z
from treadmill import zkutils

try:
    _Loader = _pyyaml.CSafeLoader
except AttributeError:          # pragma: no cover
    _Loader = _pyyaml.SafeLoader

HOST = 'node1'
OTHER = 'node2'
ROOT = z.path.placement(HOST)
READY = eventmgr.READY_FILE
ADMIN_OP_S = 0.002        # virtual time one admin round trip takes
PLACEMENT_KEYS = ('identity', 'identity_count', 'expires')
PRESENCE = z.path.server_presence(HOST)
# lost reply on one read call of the agent's client (the session survives)
ZK_KINDS = ('zk_conn_loss', 'zk_op_timeout')
ZK_RETRY_DELAY_S = 0.3    # what a retried command costs (delay 0.2 + jitter)


class _HarnessFatal(BaseException):
    """A HarnessError that was about to be swallowed by exit_on_unhandled."""


def _is_instance_file(name):
    return not name.startswith('.')


class World:
    """ZooKeeper + cache directory + at most one live agent process."""

    def __init__(self, config, clock, log, root, parse_cache=None):
        self.config = config
        self.clock = clock
        self.log = log
        self.tm_root = root
        self.cache_dir = os.path.join(root, 'cache')
        os.makedirs(self.cache_dir)     # created by the node install
        self.zk = zkmod.SimZk(clock, log)
        self.zk.order_seed = config.get('child_order')
        self.admin = self.zk.connect('admin')
        self.presence_client = None
        self.seam = fsfault.FaultFS(clock, self.cache_dir, config['bufsize'])
        self.seam.on_step = self.reader_hook
        self.seam.on_list = self.on_list
        self.seam.on_race = self.on_race
        # agent
        self.agent_alive = False
        self.agent_client = None
        self.agent_gen = 0
        self.in_agent = False
        self.finished = False
        self.watching = False
        self.sync_zxid = None
        self.synced_this_gen = False
        # current step
        self.step_op = None
        self.step_kind = None
        self.step_index = None
        self.step_root = False
        self.mid = None
        self.gets = 0
        self.reads = 0
        self.read_trace = []      # [(call, what, name)] of the current step
        self.zk_plan = None
        self.zk_fired = None
        self.in_retry = 0
        self.cand = {}
        self.pre_outdated = None
        self.first_sync_in_step = False
        self.synced_in_step = False
        # reference data
        self.intended = {}        # name -> set of canon(expected content)
        self.prepop = {}          # name -> set of raw bytes planted
        # raw bytes -> canon str or None (pure function of the bytes: may be
        # shared by the fault variants of one history)
        self.parse_cache = parse_cache if parse_cache is not None else {}
        self.exp_cache = {}       # name -> (versions, expected dict)
        self.view = {}            # cache dir: name -> raw bytes
        # entries removed by someone else (appcfgmgr drops an entry it cannot
        # configure) since the last synchronisation began: the agent cannot
        # know before it synchronises again
        self.ext_removed = set()
        self.ext_removed_ever = set()
        self.uncached_at_sync = set()   # placed, no manifest at a sync
        # bookkeeping
        self.source = None
        self.executed = []
        self.n = 0
        self.violation = None
        self.fps = []
        self.nontrivial = 0
        self.step_traces = {}     # op index -> [(call, basename, nbytes)]
        self.step_reads = {}      # op index -> [(call, what, name)]
        self.zk_fired_all = []
        self.fired = []           # faults that fired: dicts
        self.died = {}
        self.last_death = None
        self.probes = {
            'syncs': 0, 'dir_listings': 0, 'late_manifest_then_event': 0,
            'ext_removed_then_event': 0, 'never_cached_unplaced': 0,
            'files_written': 0, 'stale_removed': 0,
            'outdated_rewritten': 0, 'manifest_missing': 0,
            'placement_missing': 0, 'placement_data_empty': 0,
            'restarts': 0, 'starts': 0, 'agent_deaths': 0,
            'mid_ops_applied': 0,
            'quiescent_checks': 0, 'reader_checks': 0,
            'written_content_checks': 0, 'ready_set': 0, 'ready_cleared': 0,
            'prepop_stale': 0, 'prepop_outdated': 0, 'prepop_fresh': 0,
            'prepop_junk': 0, 'prepop_dot': 0, 'fs_steps': 0,
            'dotfiles_left_by_crash': 0, 'waited_for_placement_node': 0,
            'fault_variants': 0, 'fault_inside_write_safe': 0,
            'crash_between_write_and_replace': 0,
            'converged_after_fault': 0, 'zk_read_calls': 0,
            'zk_fault_variants': 0, 'zk_fault_on_direct_read': 0,
            'zk_fault_absorbed_by_retry': 0,
            'zk_fault_on_manifest_read': 0,
        }
        self.faults = {k: 0 for k in fsfault.KINDS}
        self.faults.update({'agent_killed': 0, 'session_expired': 0,
                            'mid_sync_change': 0})
        self.faults.update({k: 0 for k in ZK_KINDS})

    # ------------------------------------------------------------------
    def fail(self, sig, detail):
        if self.violation is None:
            # the scratch root differs from run to run
            detail = detail.replace(self.tm_root, '<root>')
            self.violation = {'sig': sig, 'detail': detail, 'step': self.n}
            self.log.ev('violation', sig, detail)

    # ------------------------------------------------------------------
    # the op loop (top level while no agent runs, nested inside the agent's
    # time.sleep while one does)
    def drive(self):
        while True:
            if self.violation is not None or self.finished:
                op = None
            else:
                op = self.source.next_op(self)
            if op is None:
                self.finished = True
                if self.in_agent:
                    raise SimDone()
                return
            self.n += 1
            self.executed.append(op)
            self.log.ev('op', op)
            kind = op['op']
            if kind == 'heartbeat':
                if self.in_agent:
                    self.begin_step(op, 'heartbeat')
                    return            # time.sleep returns: the loop iterates
                continue
            getattr(self, 'op_' + kind)(op)

    def on_sleep(self, _seconds):
        """time.sleep of the agent's main loop: the simulator takes over."""
        if not self.agent_alive or self.in_agent:
            raise HarnessError('time.sleep outside the agent main loop')
        self.end_step()
        self.in_agent = True
        try:
            self.drive()
        finally:
            self.in_agent = False

    # ------------------------------------------------------------------
    # agent life cycle
    def sys_exit(self, code):
        """utils.sys_exit (os._exit): no clean-up code runs after this."""
        exc = sys.exc_info()[1]
        if isinstance(exc, HarnessError):
            raise _HarnessFatal(exc)
        where = 'exit'
        if exc is not None:
            tb = traceback.extract_tb(exc.__traceback__)
            where = '%s:%s' % (type(exc).__name__,
                               tb[-1].name if tb else '?')
        self.seam.kill()
        raise SimProcessExit((code, where))

    def op_start(self, op):
        if self.agent_alive or self.in_agent:
            return
        self.seam.revive()
        self.agent_gen += 1
        self.probes['starts'] += 1
        if self.agent_gen > 1:
            self.probes['restarts'] += 1
        client = self.zk.connect('eventmgr%d' % self.agent_gen)
        real_get = client.get

        def counted_get(path, watch=None):
            self.on_agent_get(path)
            self.on_agent_read('get', path)
            return real_get(path, watch=watch)
        client.get = counted_get
        real_get_children = client.get_children

        def counted_get_children(path, watch=None, include_data=False):
            if path == ROOT:
                self.on_agent_children()
            self.on_agent_read('get_children', path)
            return real_get_children(path, watch=watch,
                                     include_data=include_data)
        client.get_children = counted_get_children
        real_exists = client.exists

        def counted_exists(path, watch=None):
            self.on_agent_read('exists', path)
            return real_exists(path, watch=watch)
        client.exists = counted_exists
        real_retry = client.retry

        def counted_retry(func, *args, **kwargs):
            # KazooClient.retry (treadmill: command_retry max_tries=30)
            self.in_retry += 1
            try:
                return real_retry(func, *args, **kwargs)
            finally:
                self.in_retry -= 1
        client.retry = counted_retry
        context.GLOBAL.zk.conn = client
        self.agent_client = client
        self.agent_alive = True
        self.watching = False
        self.sync_zxid = None
        self.synced_this_gen = False
        self.begin_step(op, 'start')
        try:
            mgr = eventmgr.EventMgr(self.tm_root)
            mgr.run()
            raise HarnessError('EventMgr.run() returned')
        except SimDone:
            self.finished = True
        except SimCrash as err:
            self.agent_death('killed', str(err))
        except SimProcessExit as err:
            code = err.code
            self.agent_death(code[1] if isinstance(code, tuple) else 'exit',
                             'sys_exit')
        except _HarnessFatal:
            raise
        except HarnessError:
            raise
        except Exception as err:  # pylint: disable=broad-except
            # run() itself raised: the process ends with a traceback
            tb = traceback.extract_tb(err.__traceback__)
            self.seam.kill()
            self.agent_death('%s:%s' % (type(err).__name__,
                                        tb[-1].name if tb else '?'),
                             repr(err))

    def agent_death(self, where, detail):
        self.in_agent = False
        fired = self.seam.fired
        cause = 'spontaneous'
        if fired is not None or (self.zk_fired is not None and
                                 not self.zk_fired['absorbed']):
            cause = 'fault'
        elif where == 'killed' and detail == 'kill op':
            cause = 'kill'
        elif self.step_kind == 'expire':
            cause = 'expire'
        self.seam.kill()
        client = self.agent_client
        self.agent_alive = False
        self.agent_client = None
        self.watching = False
        if client is not None:
            del client._listeners[:]          # the process is gone
            self.zk.expire(client.client_id[0])
        context.GLOBAL.zk.conn = None
        self.probes['agent_deaths'] += 1
        key = where.split(':')[0] if cause != 'fault' else 'fault'
        self.died[key] = self.died.get(key, 0) + 1
        self.last_death = (cause, self.step_kind, where)
        self.log.ev('agent-died', cause, self.step_kind, where)
        if cause == 'spontaneous':
            self.probes['died_spontaneous'] = \
                self.probes.get('died_spontaneous', 0) + 1
            if self.step_kind == 'start':
                self.fail('C12:no-convergence-after-restart',
                          'a (re)started agent died during its initial '
                          'synchronisation without any injected fault: %s %s'
                          % (where, detail))
        if cause in ('fault', 'kill'):
            left = [n for n in sorted(os.listdir(self.cache_dir))
                    if n.startswith('.') and n != READY and
                    n not in self.prepop]
            if left and fired is not None and \
                    fired['kind'] in ('crash', 'crash_after'):
                self.probes['dotfiles_left_by_crash'] += 1
        self.end_step(died=True)

    def op_kill(self, _op):
        """SIGKILL while the agent sits in time.sleep."""
        if not self.in_agent:
            return
        self.begin_step(_op, 'kill')
        self.faults['agent_killed'] += 1
        self.seam.kill()
        raise SimCrash('kill op')

    def op_expire(self, op):
        """The agent's ZooKeeper session expires (exit_on_lost)."""
        if not self.in_agent:
            return
        self.begin_step(op, 'expire')
        self.faults['session_expired'] += 1
        self.zk.expire(self.agent_client.client_id[0])
        # exit_on_lost must have ended the process
        raise HarnessError('agent survived the loss of its session')

    def op_deliver(self, op):
        if not self.in_agent:
            return
        sid = self.agent_client.client_id[0]
        if not self.zk.pending(sid):
            return
        self.begin_step(op, 'deliver')
        for _ in range(int(op.get('n', 1))):
            if not self.zk.pending(sid):
                break
            try:
                self.zk.deliver(sid, 1)
            except (_HarnessFatal, HarnessError):
                raise
            except Exception:  # pylint: disable=broad-except
                # kazoo's callback thread logs what a watch function raises
                # and carries on: the process does not end unless the
                # function itself ends it (utils.exit_on_unhandled)
                self.probes['callback_exception_dropped'] = \
                    self.probes.get('callback_exception_dropped', 0) + 1
        self.end_step()

    # ------------------------------------------------------------------
    # step framing
    def begin_step(self, op, kind):
        self.step_op = op
        self.step_kind = kind
        self.step_index = len(self.executed) - 1
        self.step_root = ROOT in self.zk.nodes
        self.seam.begin(op.get('order', 0), op.get('fault'))
        self.mid = op.get('mid')
        self.gets = 0
        self.reads = 0
        self.read_trace = []
        self.zk_plan = op.get('zkfault')
        self.zk_fired = None
        self.in_retry = 0
        self.pre_outdated = None
        self.first_sync_in_step = False
        self.synced_in_step = False
        self.cand = {}
        for name in self.zk.children(ROOT) or []:
            exp = self.expected(name)
            if exp is not None:
                self.cand[name] = {logmod.canon(exp)}

    def end_step(self, died=False):
        seam = self.seam
        kind = self.step_kind
        trace = seam.trace
        if self.step_index is not None:
            self.step_traces[self.step_index] = list(trace)
        self.probes['fs_steps'] += len(trace)
        fired = seam.fired
        if fired is not None:
            self.fired.append(fired)
            self.faults[fired['kind']] += 1
            if not died:
                # never seen on the unchanged tree: no OSError is handled
                self.probes['fault_survived_by_agent'] = \
                    self.probes.get('fault_survived_by_agent', 0) + 1
        if self.step_index is not None:
            self.step_reads[self.step_index] = list(self.read_trace)
        self.probes['zk_read_calls'] += len(self.read_trace)
        zkf = self.zk_fired
        self.zk_plan = None
        if zkf is not None:
            self.zk_fired_all.append(zkf)
            self.faults[zkf['kind']] += 1
            if zkf['absorbed']:
                self.probes['zk_fault_absorbed_by_retry'] += 1
            else:
                self.probes['zk_fault_on_direct_read'] += 1
                if zkf['what'] == 'scheduled':
                    self.probes['zk_fault_on_manifest_read'] += 1
                if not died:
                    # never seen on the unchanged tree: a failed direct read
                    # ends the process (exit_on_unhandled / traceback)
                    self.probes['zk_fault_survived_by_agent'] = \
                        self.probes.get('zk_fault_survived_by_agent', 0) + 1
        self.log.ev('step', kind, [[c, b] for c, b, _n in trace], fired,
                    zkf, died)
        written = sorted({n for n in seam.replaced + seam.created
                          if _is_instance_file(n)})
        removed = sorted({n for n in seam.unlinked if _is_instance_file(n)})
        self.probes['files_written'] += len(written)
        self.probes['stale_removed'] += len(removed)
        for call, base, _n in trace:
            if base == READY:
                if call in ('truncate', 'create'):
                    self.probes['ready_set'] += 1
                elif call == 'unlink':
                    self.probes['ready_cleared'] += 1
        seam.end()
        self.mid = None
        # -- oracles
        self.check_partial('after-crash' if died else 'end-of-step', fired)
        if not died and self.violation is None:
            self.check_written(written)
        if not died and self.violation is None and \
                self.pre_outdated is not None:
            self.check_outdated(written)
        if not died and kind in ('start', 'heartbeat') and self.step_root:
            if not self.watching and kind == 'heartbeat':
                self.probes['waited_for_placement_node'] += 1
            self.watching = True
            if self.sync_zxid is None:
                self.sync_zxid = self.zk.zxid
        if not died and self.violation is None:
            self.check_quiescent()
        if not died and self.synced_in_step:
            self.uncached_at_sync = set(self.zk.children(ROOT) or []) - \
                set(os.listdir(self.cache_dir))
        self.fps.append(logmod.fingerprint(self.abstract_state()))
        self.step_index = None

    def on_list(self):
        """The agent lists the cache directory."""
        self.probes['dir_listings'] += 1

    def on_agent_children(self):
        """The agent reads the children of /placement/<host> (watch
        registration or a child event): a synchronisation begins.  Observed
        at the ZooKeeper seam, so it does not depend on how the code under
        test looks at its directory."""
        self.probes['syncs'] += 1
        placed = set(self.zk.children(ROOT) or [])
        if self.synced_this_gen and self.sync_zxid is not None:
            # reach probes for the multi-step histories
            have = set(os.listdir(self.cache_dir))
            for name in sorted(placed - have):
                mnode = self.zk.nodes.get(z.path.scheduled(name))
                pnode = self.zk.nodes.get(z.path.placement(HOST, name))
                if mnode is not None and pnode is not None and \
                        mnode.czxid > self.sync_zxid >= pnode.czxid:
                    self.probes['late_manifest_then_event'] += 1
            if self.ext_removed & placed:
                self.probes['ext_removed_then_event'] += 1
            if self.uncached_at_sync - placed:
                self.probes['never_cached_unplaced'] += 1
        self.synced_in_step = True
        self.sync_zxid = self.zk.zxid
        self.ext_removed.clear()
        if not self.synced_this_gen:
            # the initial synchronisation (check_existing): which files are
            # older than the placement they stand for?
            self.synced_this_gen = True
            out = set()
            for name in self.zk.children(ROOT) or []:
                path = os.path.join(self.cache_dir, name)
                ctime = self.seam.ctimes.get(path)
                node = self.zk.nodes.get(z.path.placement(HOST, name))
                if ctime is None or node is None:
                    continue
                if not os.path.exists(path):
                    continue
                if ctime < node.ctime / 1000.0 and \
                        z.path.scheduled(name) in self.zk.nodes:
                    out.add(name)
            self.pre_outdated = out

    def on_agent_read(self, call, path):
        """One read call of the agent's client: a numbered fault point."""
        if path.startswith(ROOT + '/'):
            what, name = 'placement', path[len(ROOT) + 1:]
        elif path.startswith(z.SCHEDULED + '/'):
            what, name = 'scheduled', path[len(z.SCHEDULED) + 1:]
        elif path == ROOT:
            what, name = 'placement-root', ''
        elif path == PRESENCE:
            what, name = 'presence', ''
        else:
            what, name = 'other', ''
        self.reads += 1
        self.read_trace.append((call, what, name))
        plan = self.zk_plan
        if plan is None:
            return
        if plan.get('on'):
            hit = plan['on'] == what and plan.get('name', '') == name
        else:
            hit = plan.get('at') == self.reads
        if not hit:
            return
        self.zk_plan = None
        kind = plan.get('kind')
        if kind not in ZK_KINDS:
            kind = ZK_KINDS[0]
        # reads issued through KazooClient.retry (ChildrenWatch) or the
        # DataWatch's own KazooRetry are re-issued by kazoo after a delay:
        # the code under test only sees the delay
        absorbed = bool(self.in_retry) or what == 'presence'
        self.zk_fired = {'kind': kind, 'call': call, 'what': what,
                         'name': name, 'at': self.reads,
                         'absorbed': absorbed}
        if absorbed:
            self.clock.advance(ZK_RETRY_DELAY_S)
            return
        if kind == 'zk_op_timeout':
            raise kexc.OperationTimeoutError()
        raise kexc.ConnectionLoss()

    def on_agent_get(self, path):
        self.gets += 1
        mid = self.mid
        hit = False
        if mid is not None:
            if mid.get('at_read'):
                # lands right before the agent reads that node
                target = mid['do'].get('name', '')
                hit = path == (z.path.placement(HOST, target)
                               if mid['at_read'] == 'placement'
                               else z.path.scheduled(target))
            else:
                hit = mid.get('at_get') == self.gets
        if hit:
            self.mid = None
            self.probes['mid_ops_applied'] += 1
            self.faults['mid_sync_change'] += 1
            self.log.ev('mid', mid['do'])
            self.apply_admin(mid['do'])
        if path.startswith(ROOT + '/'):
            node = self.zk.nodes.get(path)
            if node is None:
                self.probes['placement_missing'] += 1
            elif not node.data:
                self.probes['placement_data_empty'] += 1
        elif path.startswith(z.SCHEDULED + '/'):
            if path not in self.zk.nodes:
                self.probes['manifest_missing'] += 1

    # ------------------------------------------------------------------
    # admin / world ops (all total)
    def apply_admin(self, op):
        kind = op['op']
        if kind not in ('sched_put', 'sched_del', 'place_put', 'place_del'):
            return
        getattr(self, 'op_' + kind)(op)

    def _touch(self, name):
        """ZooKeeper data of `name` changed: remember what is intended."""
        exp = self.expected(name)
        if exp is not None:
            canon = logmod.canon(exp)
            self.intended.setdefault(name, set()).add(canon)
            self.cand.setdefault(name, set()).add(canon)

    def op_root_put(self, _op):
        self.clock.advance(ADMIN_OP_S)
        zkutils.ensure_exists(self.admin, ROOT)

    def op_root_del(self, _op):
        """Never generated (outside the quantifier, see assumptions): the
        server is removed from the cell.  Kept for probing by hand."""
        self.clock.advance(ADMIN_OP_S)
        zkutils.ensure_deleted(self.admin, ROOT)

    def op_sched_put(self, op):
        self.clock.advance(ADMIN_OP_S)
        zkutils.put(self.admin, z.path.scheduled(op['name']), op['manifest'])
        self._touch(op['name'])

    def op_sched_del(self, op):
        self.clock.advance(ADMIN_OP_S)
        zkutils.ensure_deleted(self.admin, z.path.scheduled(op['name']))
        self._touch(op['name'])

    def op_place_put(self, op):
        """Create the placement record, or update its data in place."""
        self.clock.advance(ADMIN_OP_S)
        host = op.get('host', HOST)
        if host == HOST and ROOT not in self.zk.nodes:
            return
        zkutils.put(self.admin, z.path.placement(host, op['name']),
                    op.get('data'))
        self._touch(op['name'])

    def op_place_del(self, op):
        self.clock.advance(ADMIN_OP_S)
        zkutils.ensure_deleted(self.admin,
                               z.path.placement(HOST, op['name']))
        if op.get('to'):
            zkutils.put(self.admin, z.path.placement(op['to'], op['name']),
                        op.get('data'))
        self._touch(op['name'])

    def op_presence(self, op):
        self.clock.advance(ADMIN_OP_S)
        path = z.path.server_presence(HOST)
        if op['up']:
            if path in self.zk.nodes:
                return
            self.presence_client = self.zk.connect('presence')
            zkutils.put(self.presence_client, path, {'seen': True},
                        ephemeral=True)
        else:
            client = self.presence_client
            if client is None or not client.connected:
                return
            self.zk.expire(client.client_id[0])

    def op_advance(self, op):
        self.clock.advance(op['dt'])

    def op_fs_put(self, op):
        """Plant a file in the cache directory (only while no agent runs:
        prior cache content, or what a crashed incarnation left)."""
        if self.agent_alive:
            return
        name = op['name']
        if '/' in name or name in ('', '.', '..', READY):
            return
        raw = op['raw'].encode('utf-8')
        path = os.path.join(self.cache_dir, name)
        with open(path, 'wb') as f:
            f.write(raw)
        self.seam.set_ctime(path, self.clock.peek() - float(op.get('age', 0)))
        self.prepop.setdefault(name, set()).add(raw)
        self.view[name] = raw
        self.probes['prepop_' + op.get('flavour', 'junk')] += 1

    def op_fs_del(self, op):
        if self.agent_alive:
            return
        name = op['name']
        if '/' in name or name in ('', '.', '..'):
            return
        path = os.path.join(self.cache_dir, name)
        if os.path.isfile(path):
            os.unlink(path)
            self.seam.ctimes.pop(path, None)
            self.view.pop(name, None)

    def op_ext_rm(self, op):
        """Another process removes a cache entry while the agent runs (what
        appcfgmgr does with an entry it cannot configure)."""
        name = op['name']
        if '/' in name or name.startswith('.') or name in ('', READY):
            return
        path = os.path.join(self.cache_dir, name)
        if not os.path.isfile(path):
            return
        os.unlink(path)
        self.seam.ctimes.pop(path, None)
        self.view.pop(name, None)
        self.ext_removed.add(name)
        self.ext_removed_ever.add(name)

    def on_race(self, name):
        """The entry the agent is about to remove is removed by someone else
        first (appcfgmgr dropping an entry it cannot configure)."""
        self.view.pop(name, None)
        self.ext_removed.add(name)
        self.ext_removed_ever.add(name)
        self.probes['removal_raced'] = self.probes.get('removal_raced', 0) + 1

    def op_settle(self, _op):
        """Reach probe: is the system quiescent and consistent now?"""
        if self.quiescent():
            self.check_quiescent()
            if self.violation is None and (self.fired or self.zk_fired_all):
                self.probes['converged_after_fault'] += 1

    # ------------------------------------------------------------------
    # reference model
    def expected(self, name):
        """manifest merged with placement data and the task id, computed
        from the ZooKeeper tree (None unless both nodes exist)."""
        mnode = self.zk.nodes.get(z.path.scheduled(name))
        pnode = self.zk.nodes.get(z.path.placement(HOST, name))
        if mnode is None or pnode is None or '#' not in name:
            return None
        key = (mnode.czxid, mnode.mzxid, pnode.czxid, pnode.mzxid)
        hit = self.exp_cache.get(name)
        if hit is not None and hit[0] == key:
            return hit[1]
        out = dict(json.loads(mnode.data.decode()))
        out['task'] = name.split('#', 1)[1]
        if pnode.data:
            out.update(json.loads(pnode.data.decode()))
        self.exp_cache[name] = (key, out)
        return out

    def parse(self, raw):
        """canon(dict) of a cache file's content, None if it is not one
        complete YAML mapping."""
        if raw in self.parse_cache:
            return self.parse_cache[raw]
        try:
            obj = _pyyaml.load(raw.decode('utf-8'), Loader=_Loader)
        except (_pyyaml.YAMLError, UnicodeDecodeError):
            obj = None
        canon = logmod.canon(obj) if isinstance(obj, dict) else None
        self.parse_cache[raw] = canon
        return canon

    # ------------------------------------------------------------------
    # oracles
    def reader_hook(self, _call, base):
        """A reader looks at the directory after every mutating FS call."""
        names = os.listdir(self.cache_dir)
        view = self.view
        present = set(names)
        for name in list(view):
            if name not in present:
                del view[name]
        changed = []
        for name in names:
            if name == base or name not in view:
                try:
                    with open(os.path.join(self.cache_dir, name), 'rb') as f:
                        view[name] = f.read()
                    changed.append(name)
                except FileNotFoundError:
                    view.pop(name, None)
        # the others were looked at after the call that last changed them
        self.check_partial('fs-step', self.seam.fired, fresh=False,
                           only=changed)

    def refresh_view(self):
        view = {}
        for name in os.listdir(self.cache_dir):
            with open(os.path.join(self.cache_dir, name), 'rb') as f:
                view[name] = f.read()
        self.view = view

    def check_partial(self, when, fired, fresh=True, only=None):
        """Every non-dot file is a complete manifest that was at some point
        the intended content for its name (or what the generator planted)."""
        if self.violation is not None:
            return
        if fresh:
            self.refresh_view()
        self.probes['reader_checks'] += 1
        for name in sorted(self.view if only is None else only):
            if not _is_instance_file(name):
                continue
            raw = self.view[name]
            if raw in self.prepop.get(name, ()):
                continue
            canon = self.parse(raw)
            if canon is not None and canon in self.intended.get(name, ()):
                continue
            kind = fired['kind'] if fired else 'no-fault'
            calls = [(c, b) for c, b, _n in self.seam.trace][-8:]
            if canon is None:
                what = 'is not a complete YAML mapping (%d bytes: %r)' % (
                    len(raw), raw[:60])
            else:
                known = self.intended.get(name, set()) | \
                    self.cand.get(name, set())
                field = self.merge_field(canon, known)
                if field is not None:
                    # complete, but not what was to be written
                    self.fail('C12:written-content-wrong:%s' % field,
                              '%s: cache entry %r is a complete manifest '
                              'whose %s differs from every content ever '
                              'intended for that name: %s; fs calls: %s' % (
                                  when, name, field, canon[:300], calls))
                    return
                what = 'parses, but to something that was never the ' \
                       'intended content of that name: %s' % canon[:200]
            self.fail('C12:partial-file-visible:%s' % kind,
                      '%s: cache entry %r %s; fs calls of the step so far: %s'
                      % (when, name, what, calls))
            return

    @staticmethod
    def merge_field(canon, known):
        """If the content equals an intended one except for the merged
        fields (task id, placement data), the name of the first such field."""
        got = json.loads(canon)
        merged = ('task',) + PLACEMENT_KEYS
        for cand in sorted(known):
            want = json.loads(cand)
            diff = {k for k in set(got) | set(want)
                    if got.get(k, KeyError) != want.get(k, KeyError)}
            if diff and diff <= set(merged):
                return [k for k in merged if k in diff][0]
        return None

    def check_written(self, written):
        for name in written:
            raw = self.view.get(name)
            if raw is None:
                continue            # removed again within the same step
            self.probes['written_content_checks'] += 1
            canon = self.parse(raw)
            cands = self.cand.get(name, set())
            if canon is not None and canon in cands:
                continue
            if canon is None:
                field = 'unparsable'
            elif not cands:
                field = 'no-such-placement'
            else:
                field = self.merge_field(canon, cands) or 'manifest'
            self.fail('C12:written-content-wrong:%s' % field,
                      'file %r written by this synchronisation holds %s; '
                      'expected one of %s' % (
                          name, (canon or repr(raw[:80]))[:300],
                          [c[:300] for c in sorted(cands)]))
            return

    def check_outdated(self, written):
        """Initial synchronisation: a file older than its placement record
        must have been rewritten (EventMgr._cache check_existing)."""
        for name in sorted(self.pre_outdated):
            if name in self.touched_in_step():
                continue
            if self.expected(name) is None:
                continue
            if name in written:
                self.probes['outdated_rewritten'] += 1
                continue
            self.fail('C12:outdated-file-not-refreshed',
                      'cache file %r was older than the placement record of '
                      'that instance when the agent started, manifest and '
                      'placement exist, and the initial synchronisation did '
                      'not rewrite it' % name)
            return

    def touched_in_step(self):
        # names whose ZooKeeper data was changed by a mid-sync op
        op = self.step_op or {}
        mid = op.get('mid')
        if mid and mid.get('do', {}).get('name'):
            return {mid['do']['name']}
        return set()

    def quiescent(self):
        if not self.agent_alive or self.agent_client is None:
            return False
        if self.zk.pending(self.agent_client.client_id[0]):
            return False
        return self.watching and ROOT in self.zk.nodes

    def check_quiescent(self):
        if not self.quiescent() or self.violation is not None:
            return
        self.probes['quiescent_checks'] += 1
        placed = set(self.zk.children(ROOT))
        names = {n for n in os.listdir(self.cache_dir)
                 if _is_instance_file(n)}
        extra = sorted(names - placed)
        if extra:
            self.fail('C12:cache-names-unplaced-instance',
                      'quiescent (no undelivered watch event), cache names %s '
                      'which %s not placed on %s; placed: %s' % (
                          extra, 'is' if len(extra) == 1 else 'are', HOST,
                          sorted(placed)))
            return
        sync = self.sync_zxid if self.sync_zxid is not None else -1
        for name in sorted(placed - names):
            mnode = self.zk.nodes.get(z.path.scheduled(name))
            pnode = self.zk.nodes.get(z.path.placement(HOST, name))
            if mnode is None or pnode is None:
                continue
            if mnode.czxid > sync or pnode.czxid > sync:
                continue      # appeared after the last synchronisation began
            if name in self.ext_removed:
                continue      # removed by someone else since then
            self.fail('C12:placed-instance-not-cached',
                      'quiescent, %r is placed on %s, its manifest and '
                      'placement record exist since before the last '
                      'synchronisation, but the cache has no file for it '
                      '(cache: %s)' % (name, HOST, sorted(names)))
            return

    def abstract_state(self):
        cache = []
        for name in sorted(self.view):
            raw = self.view[name]
            if name.startswith('.'):
                cache.append([name if name == READY else '.tmp', 'dot'])
                continue
            canon = self.parse(raw)
            state = 'planted' if raw in self.prepop.get(name, ()) else (
                'current' if canon is not None and self.expected(name)
                is not None and canon == logmod.canon(self.expected(name))
                else 'old')
            cache.append([name, state])
        placed = self.zk.children(ROOT)
        sched = self.zk.children(z.SCHEDULED) or []
        return [self.agent_alive, self.watching, placed, sched, cache,
                z.path.server_presence(HOST) in self.zk.nodes]


# ---------------------------------------------------------------------------
# generation

WORDS = ['web', 'db', 'job', 'cache']
ODD_STRINGS = ['', ' ', '007', 'yes', 'null', '~', '1e3', 'a: b', '- x',
               '#c', "it's", 'say "hi"', 'tab\there', 'trail ', ' lead',
               'two\nlines', 'two\nlines\n', '\n', 'é☃', '{}', '[]',
               '0x1f', '1_000', '12:30:00', '2001-01-01', '%', '@', '`',
               'a' * 90, '!!str x', '&a', '*a', '|', '>', '? ',
               # outside the Basic Multilingual Plane, line separators that
               # only YAML knows, a byte-order mark
               '\U0001f680', 'go \U0001f680 now', '\U00010000\U0010ffff',
               'ls\u2028ps\u2029', 'nel\x85', '\ufeffbom', 'del\x7f']


def gen_manifest(rng, cfg, name):
    proid = name.split('.')[0]
    services = []
    for i in range(rng.randint(1, 3)):
        cmd = rng.choice(['/bin/sleep %d' % rng.randint(1, 999),
                          'exec /opt/app/run --port $PORT',
                          'set -e\ncd /opt\n./start.sh\n'] + ODD_STRINGS)
        if rng.random() < cfg['p_big']:
            cmd = ('echo %04d; ' % rng.randint(0, 9999)) * rng.randint(
                40, cfg['big_max'])
        services.append({'name': 's%d' % i, 'command': cmd,
                         'restart': {'limit': rng.randint(0, 5),
                                     'interval': rng.choice([30, 60, 0.5])}})
    manifest = {
        'memory': rng.choice(['100M', '1G', '512M']),
        'cpu': rng.choice(['10%', '100%', 5]),
        'disk': '%dM' % rng.randint(1, 2000),
        'proid': proid,
        'affinity': name.split('#')[0],
        'services': services,
        'endpoints': [{'name': 'http', 'port': rng.choice([0, 8000]),
                       'type': rng.choice([None, 'infra'])}
                      for _ in range(rng.randint(0, 2))],
        'environ': [{'name': 'V%d' % i, 'value': rng.choice(ODD_STRINGS)}
                    for i in range(rng.randint(0, 3))],
        'shared_network': rng.random() < 0.3,
        'ephemeral_ports': {'tcp': rng.randint(0, 3), 'udp': 0},
        'passthrough': [],
        'tickets': rng.choice([None, [], ['%s@realm' % proid]]),
    }
    if rng.random() < 0.3:
        manifest['identity_group'] = '%s.grp' % proid
    if rng.random() < 0.2:
        manifest['data_retention_timeout'] = rng.choice([0, 30.0, '5m'])
    if rng.random() < 0.2:
        manifest[rng.choice(ODD_STRINGS[2:12])] = rng.choice(ODD_STRINGS)
    return manifest


def gen_placement_data(rng, now):
    if rng.random() < 0.12:
        return None                      # a record without data
    identity = rng.choice([None, None, 0, 1, 2, 7])
    return {'identity': identity,
            'identity_count': None if identity is None else
            identity + rng.randint(1, 4),
            'expires': round(now + rng.choice([3600.0, 86400.0, 12.5]), 3)}


def dump_yaml(obj):
    return _pyyaml.safe_dump(obj, default_flow_style=False)


class Generator:
    """Adaptive op generator: looks at the world, emits concrete ops."""

    def __init__(self, config, streams):
        self.config = config
        self.rng = streams.get('gen')
        self.seq = 0
        self.queue = []
        self.count = 0
        self.ended = False
        self.weights = [(k, w * config['wmul'].get(k, 1.0))
                        for k, w in OP_WEIGHTS]
        self.prologue()

    # -- helpers
    def new_name(self):
        self.seq += 1
        return '%s.%s#%010d' % (self.rng.choice(self.config['proids']),
                                self.rng.choice(WORDS),
                                self.seq * self.rng.choice([1, 7, 1000]))

    def order(self):
        return self.rng.choice([0, 0, self.rng.randint(1, 1 << 30)])

    def known(self, world):
        names = set(world.zk.children(z.SCHEDULED) or [])
        names.update(world.zk.children(ROOT) or [])
        return sorted(names)

    def placed(self, world):
        return world.zk.children(ROOT) or []

    def prologue(self):
        rng = self.rng
        cfg = self.config
        q = self.queue
        if rng.random() < cfg['p_root']:
            q.append({'op': 'root_put'})
        if rng.random() < 0.7:
            q.append({'op': 'presence', 'up': True})
        names = [self.new_name() for _ in range(rng.randint(1, cfg['napps']))]
        have_root = bool(q) and q[0]['op'] == 'root_put'
        now = cfg['start']
        placed = []
        for name in names:
            r = rng.random()
            sched = {'op': 'sched_put', 'name': name,
                     'manifest': gen_manifest(rng, cfg, name)}
            place = {'op': 'place_put', 'name': name,
                     'data': gen_placement_data(rng, now)}
            if r < 0.6:
                q.extend([sched, place])
                placed.append(name)
            elif r < 0.75:
                q.extend([place, sched])
                placed.append(name)
            elif r < 0.87:
                q.append(place)
                placed.append(name)
            else:
                q.append(sched)
        if rng.random() < 0.5:
            q.append({'op': 'advance', 'dt': rng.choice([1.0, 60.0, 3600.0])})
        self.plant(q, placed if have_root else [], rng.randint(0, 5))
        q.append({'op': 'start', 'order': self.order()})

    def plant(self, q, placed, count):
        """Prior cache content."""
        rng = self.rng
        cfg = self.config
        for _ in range(count):
            flavour = rng.choice(['stale', 'outdated', 'outdated', 'fresh',
                                  'junk', 'dot'])
            if flavour in ('outdated', 'fresh') and not placed:
                flavour = 'stale'
            if flavour == 'stale':
                name = self.new_name()
                body = gen_manifest(rng, cfg, name)
                body['task'] = name.split('#')[1]
                q.append({'op': 'fs_put', 'flavour': 'stale', 'name': name,
                          'raw': dump_yaml(body),
                          'age': rng.choice([0, 5.0, 4000.0])})
            elif flavour in ('outdated', 'fresh'):
                name = rng.choice(placed)
                body = gen_manifest(rng, cfg, name)
                body['task'] = name.split('#')[1]
                body['identity'] = 99
                # outdated: older than any placement record of this run
                age = 10 * 86400.0 if flavour == 'outdated' else -0.5
                q.append({'op': 'fs_put', 'flavour': flavour, 'name': name,
                          'raw': dump_yaml(body), 'age': age})
            elif flavour == 'junk':
                name = rng.choice(['core', 'README', 'x#y', 'a.b#c.swp',
                                   'proid.app#1~', 'nohup.out'])
                q.append({'op': 'fs_put', 'flavour': 'junk', 'name': name,
                          'raw': rng.choice(['', 'garbage\n', '{', 'a: [1'])})
            else:
                base = rng.choice(placed) if placed and rng.random() < 0.6 \
                    else self.new_name()
                q.append({'op': 'fs_put', 'flavour': 'dot',
                          'name': '.%s-old%04d' % (base, rng.randint(0, 9999)),
                          'raw': rng.choice(['', 'memory: 1', 'services:\n- c'
                                             ])})

    # -- op stream
    def next_op(self, world):
        if self.queue:
            return self.queue.pop(0)
        if self.ended:
            return None
        self.count += 1
        if self.count > self.config['n_ops']:
            self.ended = True
            self.queue = settle_ops() + [{'op': 'settle'}]
            return self.queue.pop(0)
        if not world.agent_alive:
            # the agent is down: the world moves on, then it is restarted
            rng = self.rng
            for _ in range(rng.randint(0, 3)):
                kind = rng.choice(['place_put', 'place_del', 'sched_put',
                                   'sched_del', 'replace', 'advance',
                                   'fs_del', 'plant', 'root_put'])
                if kind == 'plant':
                    self.plant(self.queue, self.placed(world), 1)
                    continue
                if kind == 'fs_del':
                    names = [n for n in sorted(os.listdir(world.cache_dir))
                             if n != READY]
                    if names:
                        self.queue.append({'op': 'fs_del',
                                           'name': rng.choice(names)})
                    continue
                op = getattr(self, 'g_' + kind)(world)
                if isinstance(op, list):
                    self.queue.extend(op)
                elif op is not None:
                    self.queue.append(op)
            self.queue.append(self.decorate(world, {'op': 'start',
                                                    'order': self.order()}))
            return self.queue.pop(0)
        for _ in range(30):
            kind = rngmod.weighted(self.rng, self.weights)
            op = getattr(self, 'g_' + kind)(world)
            if op is None:
                continue
            if isinstance(op, list):
                self.queue.extend(op[1:])
                return op[0]
            return op
        return {'op': 'heartbeat'}

    def decorate(self, world, op):
        """Maybe attach a lost ZooKeeper reply and / or a concurrent change
        to an agent step."""
        rng = self.rng
        if rng.random() < self.config.get('p_zk', 0.0):
            placed = self.placed(world)
            have = set(os.listdir(world.cache_dir))
            todo = [n for n in placed if n not in have]
            pool = todo if todo and rng.random() < 0.8 else placed
            kind = rng.choice(ZK_KINDS)
            if pool and rng.random() < 0.7:
                op['zkfault'] = {'on': rng.choice(['scheduled', 'scheduled',
                                                   'placement']),
                                 'name': rng.choice(pool), 'kind': kind}
            else:
                op['zkfault'] = {'at': rng.randint(1, 2 * len(todo) + 3),
                                 'kind': kind}
        if rng.random() >= self.config['p_mid']:
            return op
        placed = self.placed(world)
        if not placed:
            return op
        # prefer an instance the coming synchronisation will have to fetch
        have = set(os.listdir(world.cache_dir))
        todo = [n for n in placed if n not in have]
        name = rng.choice(todo if todo and rng.random() < 0.8 else placed)
        at_read = rng.choice(['placement', 'scheduled', None])
        if at_read == 'placement':
            kind = rng.choice(['place_del', 'place_del', 'place_del',
                               'place_put'])
        else:
            kind = rng.choice(['place_del', 'place_del', 'sched_del',
                               'sched_del', 'place_put', 'sched_put'])
        if kind == 'place_del':
            do = {'op': 'place_del', 'name': name}
        elif kind == 'sched_del':
            do = {'op': 'sched_del', 'name': name}
        elif kind == 'place_put':
            do = {'op': 'place_put', 'name': name,
                  'data': gen_placement_data(rng, world.clock.peek())}
        else:
            do = {'op': 'sched_put', 'name': name,
                  'manifest': gen_manifest(rng, self.config, name)}
        if at_read is not None:
            op['mid'] = {'at_read': at_read, 'do': do}
            return op
        hi = 2 * len(todo) + (1 + len(placed) if op['op'] == 'start' else 0)
        op['mid'] = {'at_get': rng.randint(1, max(2, hi)), 'do': do}
        return op

    def g_root_put(self, world):
        if ROOT in world.zk.nodes:
            return None
        return {'op': 'root_put'}

    def g_sched_put(self, world):
        rng = self.rng
        known = self.known(world)
        if known and rng.random() < 0.3:
            name = rng.choice(known)       # a manifest (re)appears / changes
        else:
            name = self.new_name()
        return {'op': 'sched_put', 'name': name,
                'manifest': gen_manifest(rng, self.config, name)}

    def g_place_put(self, world):
        rng = self.rng
        sched = world.zk.children(z.SCHEDULED) or []
        placed = self.placed(world)
        unplaced = [n for n in sched if n not in placed]
        r = rng.random()
        if unplaced and r < 0.6:
            name = rng.choice(unplaced)
        elif placed and r < 0.75:
            name = rng.choice(placed)      # data updated in place
        else:
            name = self.new_name()         # placed, manifest not there (yet)
        op = {'op': 'place_put', 'name': name,
              'data': gen_placement_data(rng, world.clock.peek())}
        if rng.random() < 0.08:
            op['host'] = OTHER
        return op

    def g_place_new(self, world):
        """The usual order: manifest, then placement."""
        name = self.new_name()
        return [{'op': 'sched_put', 'name': name,
                 'manifest': gen_manifest(self.rng, self.config, name)},
                {'op': 'place_put', 'name': name,
                 'data': gen_placement_data(self.rng, world.clock.peek())}]

    def g_place_del(self, world):
        placed = self.placed(world)
        if not placed:
            return None
        op = {'op': 'place_del', 'name': self.rng.choice(placed)}
        if self.rng.random() < 0.3:
            op['to'] = OTHER
            op['data'] = gen_placement_data(self.rng, world.clock.peek())
        out = [op]
        if self.rng.random() < 0.4:
            out.append({'op': 'sched_del', 'name': op['name']})
        return out

    def g_replace(self, world):
        """The record is deleted and created again (new identity)."""
        placed = self.placed(world)
        if not placed:
            return None
        name = self.rng.choice(placed)
        return [{'op': 'place_del', 'name': name},
                {'op': 'advance', 'dt': self.rng.choice([0.01, 1.0, 90.0])},
                {'op': 'place_put', 'name': name,
                 'data': gen_placement_data(self.rng, world.clock.peek())}]

    # -- targeted multi-op histories on one running agent
    def _drain(self):
        return {'op': 'deliver', 'n': 50, 'order': self.order()}

    def _unrelated_event(self, world):
        """A child event of /placement/<host> that keeps the others placed:
        another instance arrives, or one leaves."""
        placed = self.placed(world)
        if len(placed) > 1 and self.rng.random() < 0.3:
            return [{'op': 'place_del', 'name': self.rng.choice(placed)}]
        return self.g_place_new(world)

    def g_late_manifest(self, world):
        """Placed while the manifest is missing; the manifest appears after
        that synchronisation; a later placement event still lists it."""
        if not world.agent_alive or ROOT not in world.zk.nodes:
            return None
        rng = self.rng
        lacking = [n for n in self.placed(world)
                   if z.path.scheduled(n) not in world.zk.nodes]
        out = []
        if lacking and rng.random() < 0.5:
            name = rng.choice(lacking)
        else:
            name = self.new_name()
            out.append({'op': 'place_put', 'name': name,
                        'data': gen_placement_data(rng, world.clock.peek())})
        out.append(self._drain())
        out.append({'op': 'sched_put', 'name': name,
                    'manifest': gen_manifest(rng, self.config, name)})
        if rng.random() < 0.3:
            out.append({'op': 'advance', 'dt': rng.choice([0.5, 45.0])})
        event = [op for op in self._unrelated_event(world)
                 if op.get('name') != name]
        out.extend(event or self.g_place_new(world))
        out.append(self._drain())
        return out

    def g_ext_rm(self, world):
        """A cache entry is removed by another process between two events;
        a later placement event still lists the instance."""
        if not world.agent_alive:
            return None
        have = set(os.listdir(world.cache_dir))
        names = [n for n in self.placed(world) if n in have]
        if not names:
            return None
        name = self.rng.choice(names)
        out = [self._drain(), {'op': 'ext_rm', 'name': name}]
        event = [op for op in self._unrelated_event(world)
                 if op.get('name') != name]
        out.extend(event or self.g_place_new(world))
        out.append(self._drain())
        return out

    def g_unplace_uncached(self, world):
        """An instance that never got a cache entry (no manifest) leaves."""
        if not world.agent_alive or ROOT not in world.zk.nodes:
            return None
        rng = self.rng
        have = set(os.listdir(world.cache_dir))
        names = [n for n in self.placed(world) if n not in have and
                 z.path.scheduled(n) not in world.zk.nodes]
        out = []
        if names:
            name = rng.choice(names)
        else:
            name = self.new_name()
            out.append({'op': 'place_put', 'name': name,
                        'data': gen_placement_data(rng, world.clock.peek())})
        out.extend([self._drain(), {'op': 'place_del', 'name': name},
                    self._drain()])
        return out

    def g_sched_del(self, world):
        sched = world.zk.children(z.SCHEDULED) or []
        if not sched:
            return None
        return {'op': 'sched_del', 'name': self.rng.choice(sched)}

    def g_presence(self, world):
        up = z.path.server_presence(HOST) in world.zk.nodes
        return {'op': 'presence', 'up': not up}

    def g_advance(self, world):
        return {'op': 'advance',
                'dt': self.rng.choice([0.001, 0.5, 29.0, 600.0, 86400.0])}

    def g_deliver(self, world):
        if not world.agent_alive:
            return None
        pending = world.zk.pending(world.agent_client.client_id[0])
        if not pending:
            return None
        op = {'op': 'deliver', 'n': self.rng.choice([1, 1, 1, 2, pending]),
              'order': self.order()}
        return self.decorate(world, op)

    def g_heartbeat(self, world):
        return {'op': 'heartbeat'}

    def g_kill(self, world):
        return {'op': 'kill'} if world.agent_alive else None

    def g_expire(self, world):
        return {'op': 'expire'} if world.agent_alive else None


OP_WEIGHTS = [
    ('place_new', 14), ('sched_put', 5), ('place_put', 9), ('place_del', 9),
    ('replace', 4), ('sched_del', 4), ('presence', 3), ('advance', 3),
    ('root_put', 3), ('deliver', 30), ('heartbeat', 5), ('kill', 5),
    ('expire', 1), ('late_manifest', 4), ('ext_rm', 3), ('unplace_uncached', 2),
]


def settle_ops():
    """(Re)start if needed, deliver everything, let the main loop iterate."""
    return [{'op': 'start'}, {'op': 'deliver', 'n': 50}, {'op': 'heartbeat'},
            {'op': 'deliver', 'n': 50}]


class _GenSource:
    def __init__(self, gen):
        self.gen = gen

    def next_op(self, world):
        return self.gen.next_op(world)


class _ReplaySource:
    def __init__(self, ops):
        self.it = iter(ops)

    def next_op(self, _world):
        return next(self.it, None)


def make_config(prop, tier, rng):
    big = tier == 'thorough'
    cfg = {
        'start': 1700000000.0 + rng.randint(0, 7 * 86400),
        'bufsize': rng.choice([64, 128, 256, 256, 1024, 8192]),
        'n_ops': rng.randint(8, 45 if big else 28),
        'napps': rng.randint(1, 6 if big else 4),
        'proids': ['proid%d' % i for i in range(rng.randint(1, 2))],
        'p_root': rng.choice([0.5, 0.9, 1.0]),
        'p_mid': rng.choice([0.1, 0.3, 0.6]),
        'p_zk': rng.choice([0.0, 0.1, 0.25]),
        'p_big': rng.choice([0.0, 0.0, 0.05]),
        'big_max': 1500 if big else 250,
        'max_f': 600 if big else 100,
        'picks': 2 if big else 1,
        'tail': rng.choice([0, 3, 6]),
    }
    wmul = {}
    for key, _w in OP_WEIGHTS:
        wmul[key] = rng.choice([0.0, 0.5, 1.0, 1.0, 2.0]) \
            if key not in ('place_new', 'deliver') else \
            rng.choice([0.7, 1.0, 1.5])
    cfg['wmul'] = wmul
    cfg['child_order'] = rng.getrandbits(32) if rng.random() < 0.5 else None
    return cfg


def _inside_write_safe(fired):
    """The fault landed after the temp file was created and before the
    replace completed."""
    call, kind, name = fired['call'], fired['kind'], fired['name']
    if name == READY:
        return False
    if call in ('write', 'fchmod', 'fchown'):
        return True
    if call == 'replace':
        return kind != 'crash_after'
    if call == 'create':
        return kind == 'crash_after'
    return False


class CacheSim(enginemod.Engine):
    name = 'cachesim'
    serves = ('C12',)
    real_components = (
        'treadmill.eventmgr.EventMgr: __init__, run() (the whole main loop, '
        'once=False, by inversion of control), the closures '
        '_server_presence_watch / _app_watch / _check_placement, '
        '_synchronize, _cache, _cache_notify',
        'treadmill.fs.write_safe, rm_safe, replace, mkdir_safe',
        'treadmill.zkutils.get, get_with_metadata, exit_on_lost (and put / '
        'ensure_exists / ensure_deleted for the scripted master)',
        'treadmill.utils.exit_on_unhandled', 'treadmill.yamlwrapper.dump',
        'treadmill.appenv.AppEnvironment (real LinuxAppEnvironment on a '
        'private tmpfs root)', 'treadmill.watchdog.Watchdog (lease file)',
        'treadmill.sysinfo.hostname (TREADMILL_HOSTNAME)',
        'treadmill.context.GLOBAL.zk (conn setter)',
        'kazoo.recipe.watchers.DataWatch / ChildrenWatch (real classes)',
        'PyYAML C emitter', 'a real directory on tmpfs (/dev/shm)',
    )
    stub_components = (
        'ZooKeeper: simkit.zk (single copy, sessions, one-shot watches, '
        'per-session ordered event queue delivered by deliver ops); the '
        'agent\'s client is wrapped inside the engine: every get / exists / '
        'get_children is a numbered fault point (lost reply)',
        'clock (virtual; time.sleep of the main loop hands control to the '
        'simulator)',
        'file-system seam simkit.fsfault installed as treadmill.eventmgr.'
        '{os,glob,io} and treadmill.fs.{os,tempfile,io}: deterministic temp '
        'names, user-space write buffer of a per-run size in front of the '
        'real descriptor, st_ctime from the virtual clock, listing order '
        'from the op, fault point at every mutating call',
        'utils.sys_exit raises SimProcessExit (process death: nothing '
        'buffered reaches the disk, a new EventMgr is started by a start op)',
        'the master / admin is scripted: it writes /scheduled/<inst> and '
        '/placement/<host>/<inst> through the real zkutils',
        'the presence service is a session owning /server.presence/<host>',
        'consumers of the cache (appcfgmgr) are represented by a reader '
        'that lists and parses the directory after every mutating FS call',
    )

    def level(self, prop):
        return 'fault_enumeration'

    def rule(self, prop):
        return (
            'per run: a seeded history (prior cache content: stale, '
            'outdated, fresh, junk and leftover dot files; manifests and '
            'placement records created, updated in place, deleted, '
            're-created, moved to another host in any order; presence up / '
            'down; watch events delivered late and in batches; changes '
            'landing between two ZooKeeper reads of one synchronisation; '
            'targeted multi-step histories on one running agent: manifest '
            'appears after a synchronisation that missed it + a later '
            'placement event, cache entry removed by another process + a '
            'later event, never-cached instance unplaced; '
            'lost replies on single reads; agent killed, session expired, '
            'restarted) executed without file-system faults '
            'with all oracles on; then for the sampled agent step(s) that '
            'wrote at least one cache file (and one that removed several '
            'entries at once), EVERY mutating file-system call '
            'f of that step x every kind {crash before, crash after, ENOSPC, '
            'EIO, short write (write calls only), the entry removed by '
            'another process just before the call (unlink calls only)}, '
            'and EVERY read call r of '
            'the agent\'s ZooKeeper client in that step (get of the '
            'placement record, get of /scheduled/<inst>, exists, '
            'get_children) x {ConnectionLoss, OperationTimeoutError: reply '
            'lost, session survives}, is re-executed from the '
            'start of the history with the fault at f, followed by restart, '
            'delivery of all events, a main-loop iteration and the next ops '
            'of the history.  evaluations = runs (one history + its fault '
            'variants); fault variants are counted in reach_probes.'
            'fault_variants.  non-trivial: a run in which at least one fault '
            'variant fired strictly inside a write_safe call (after the temp '
            'file was created, before the replace completed); distinct by '
            'the fingerprint of the history')

    def assumptions(self, prop):
        return [
            'ZooKeeper is a single-copy linearizable store; watch events are '
            'delivered in order per session',
            'one clock: ZooKeeper ctime and file ctime come from the same '
            '(virtual) clock, no skew; an admin round trip takes 2 ms',
            'a lost reply on a read (zkfault) raises ConnectionLoss / '
            'OperationTimeoutError from direct client calls (zkutils.get of '
            'the placement record and of /scheduled/<inst>, exists); reads '
            'issued through KazooClient.retry (ChildrenWatch get_children; '
            'treadmill configures command_retry max_tries=30) or the '
            'DataWatch\'s own KazooRetry are re-issued by kazoo, so there '
            'the code under test only sees a 0.3 s delay; the SUSPENDED / '
            'CONNECTED listener round is not replayed (session intact: the '
            'watches stay armed, the recipes\' re-read finds the same '
            'children / mzxid and does not call the closures)',
            'rename(2) is atomic and tmpfs keeps what was written before a '
            'kill (process crash, not power loss: write_safe is called '
            'without fsync by EventMgr)',
            'data written by the code under test reaches the file in chunks '
            'of a per-run buffer size (7..8192 bytes) at buffer-full, '
            'flush() and close(); a failed write stays failed for the rest '
            'of that write_safe call',
            'consumers ignore names starting with a dot (appcfgmgr '
            '_on_created/_on_modified return on instance_name[0] == \'.\', '
            'and every glob(cache/*) skips dot files); the .ready marker is '
            'not an instance',
            'instance names contain # and manifests in ZooKeeper are JSON '
            'mappings (anything else kills the agent at every start: out of '
            'the quantifier)',
            '/placement/<host> may be absent when the agent starts but is '
            'never deleted afterwards (kazoo ChildrenWatch stops for good on '
            'NoNodeError)',
            'the has-a-file clause is demanded for instances whose manifest '
            'and placement record existed when the last synchronisation '
            'began (= the agent last read the children of /placement/<host>, '
            'observed at the ZooKeeper seam): nothing notifies the agent of '
            'a manifest that appears later; an entry removed by another '
            'process (ext_rm op, what appcfgmgr does with an entry it cannot '
            'configure) is exempt until the next synchronisation begins',
            'clause beyond the literal statement, own signature '
            'C12:outdated-file-not-refreshed: the initial synchronisation '
            'rewrites a file that is older than its placement record (the '
            'documented check_existing contract)',
            'set iteration order inside _synchronize depends on '
            'PYTHONHASHSEED, which is part of the seed (recorded in replay '
            'files)',
            'only the first violation of a run is reported',
        ]

    def quick_runs(self, prop):
        return 128

    def make_config(self, prop, tier, rng):
        return make_config(prop, tier, rng)

    # -- one execution of an op list / one generated history
    def _run(self, config, seed, ops, keep_log):
        res = enginemod.Result()
        log = logmod.EventLog(keep=keep_log)
        log.ev('seed', seed if ops is None else 'replay', 'C12')
        clock = clockmod.Clock(config['start'])
        clock.install()
        root = fsseam.make_scratch()
        patches = fsfault.Patches()
        saved_host = os.environ.get('TREADMILL_HOSTNAME')
        world = None
        try:
            os.environ['TREADMILL_HOSTNAME'] = HOST
            world = World(config, clock, log, root, self._parse_cache)
            seam = world.seam
            fake_os = fsfault.FaultOS(seam)
            fake_io = fsfault.FaultIO(seam)
            patches.set(eventmgr, 'os', fake_os)
            patches.set(eventmgr, 'glob', fsfault.FaultGlob(seam))
            patches.set(eventmgr, 'io', fake_io)
            patches.set(tm_fs, 'os', fake_os)
            patches.set(tm_fs, 'io', fake_io)
            patches.set(tm_fs, 'open', fake_io.open)
            patches.set(eventmgr, 'open', fake_io.open)
            patches.set(tm_fs, 'tempfile', fsfault.FaultTempfile(seam))
            patches.set(utils, 'sys_exit', world.sys_exit)
            clock.on_sleep = world.on_sleep
            t_begin = clock.peek()
            if ops is None:
                world.source = _GenSource(
                    Generator(config, rngmod.Streams(seed)))
            else:
                world.source = _ReplaySource(ops)
            try:
                world.drive()
            except _HarnessFatal as err:
                raise HarnessError('inside the code under test: %r' %
                                   (err.args[0],))
            res.ops = world.executed
            res.violation = world.violation
            res.steps = world.n
            res.sim_s = clock.peek() - t_begin
            res.faults = dict(world.faults)
            res.probes = dict(world.probes)
            for where in sorted(world.died):
                res.probes['died@' + where] = world.died[where]
            res.fps = world.fps
            res.nontrivial = 0
            res.trace_fp = logmod.fingerprint(world.executed)
            res.digest = log.digest()
            res.log_lines = log.lines if keep_log else None
            res.extra = {'traces': world.step_traces, 'fired': world.fired,
                         'reads': world.step_reads,
                         'zk_fired': world.zk_fired_all}
        finally:
            clock.on_sleep = None
            if world is not None:
                world.seam.kill()
            patches.undo()
            context.GLOBAL.zk.conn = None
            if saved_host is None:
                os.environ.pop('TREADMILL_HOSTNAME', None)
            else:
                os.environ['TREADMILL_HOSTNAME'] = saved_host
            clock.uninstall()
            fsseam.remove_scratch(root)
        return res

    _parse_cache = None

    def execute(self, prop, config, seed, ops=None, keep_log=False):
        self._parse_cache = {}
        try:
            return self._execute(config, seed, ops, keep_log)
        finally:
            self._parse_cache = None

    def _execute(self, config, seed, ops, keep_log):
        if ops is not None:
            res = self._run(config, seed, ops, keep_log)
            fired = res.extra.get('fired', [])
            res.nontrivial = sum(1 for f in fired if _inside_write_safe(f))
            res.extra = {}
            return res
        # 1. the fault-free history (every oracle is active)
        base = self._run(config, seed, None, False)
        traces = base.extra.get('traces', {})
        reads = base.extra.get('reads', {})
        base.extra = {}
        if base.violation is not None:
            return base
        history = base.ops
        # 2. sample the synchronisation(s) to enumerate: agent steps that
        #    replaced at least one cache file
        cands = []
        for j in sorted(traces):
            nrep = sum(1 for c, b, _n in traces[j]
                       if c == 'replace' and _is_instance_file(b))
            # ... or removed several at once (an entry may be removed by
            # someone else first)
            nrm = sum(1 for c, b, _n in traces[j]
                      if c == 'unlink' and _is_instance_file(b))
            if nrep or nrm >= 2:
                cands.append((j, nrep, len(traces[j]), nrm))
        max_f = config.get('max_f', 120)
        small = [c for c in cands if c[2] <= max_f]
        if small:
            cands = small
        elif cands:
            cands = [min(cands, key=lambda c: (c[2], c[0]))]
        total = enginemod.Result()
        total.ops = history
        total.faults = dict(base.faults)
        total.probes = dict(base.probes)
        total.fps = list(base.fps)
        total.steps = base.steps
        total.sim_s = base.sim_s
        total.trace_fp = base.trace_fp
        digests = [base.digest]
        if cands:
            rng = rngmod.Streams(seed).get('faultpoint')
            picks = []
            # the step with most cache writes, then random others
            best = max(cands, key=lambda c: (c[1], -c[0]))
            picks.append(best[0])
            rest = [c[0] for c in cands if c[0] != best[0]]
            rng.shuffle(rest)
            picks.extend(rest[:max(0, config.get('picks', 1) - 1)])
            # and one that removed several entries at once
            multi = [c[0] for c in cands if c[3] >= 2 and c[0] not in picks]
            if multi:
                picks.append(multi[0])
            for j in sorted(picks):
                bad = self._enumerate(config, seed, history, j, traces[j],
                                      total, digests, keep_log,
                                      reads.get(j, []))
                if bad is not None:
                    return bad
        total.digest = '%016x' % logmod.fingerprint(digests)
        return total

    def _enumerate(self, config, seed, history, j, trace, total, digests,
                   keep_log, reads=()):
        tail = history[j + 1:j + 1 + config.get('tail', 0)]
        tail = [op for op in tail if op['op'] != 'settle']
        after = settle_ops() + tail + settle_ops() + [{'op': 'settle'}]
        plans = []
        for f, (call, _base, nbytes) in enumerate(trace, 1):
            for kind in fsfault.KINDS:
                if kind == 'short' and call != 'write':
                    continue
                if kind == 'raced' and not (
                        call == 'unlink' and _is_instance_file(_base)):
                    continue
                fault = {'at': f, 'kind': kind}
                if kind == 'short':
                    fault['cut'] = nbytes // 2
                plans.append(('fault', fault))
        # every read call of the agent's ZooKeeper client in that step
        for r in range(1, len(reads) + 1):
            for kind in ZK_KINDS:
                plans.append(('zkfault', {'at': r, 'kind': kind}))
        for key, plan in plans:
            variant = history[:j] + [dict(history[j], **{key: plan})] + after
            res = self._run(config, seed, variant, keep_log)
            fired = res.extra.get('fired', [])
            res.extra = {}
            total.steps += res.steps
            total.sim_s += res.sim_s
            total.probes['fault_variants' if key == 'fault'
                         else 'zk_fault_variants'] += 1
            for fk in fsfault.KINDS + ZK_KINDS:
                total.faults[fk] += res.faults.get(fk, 0)
            for pk in ('converged_after_fault', 'restarts',
                       'dotfiles_left_by_crash',
                       'fault_survived_by_agent', 'outdated_rewritten',
                       'agent_deaths', 'reader_checks',
                       'quiescent_checks', 'written_content_checks',
                       'died_spontaneous', 'zk_fault_on_direct_read',
                       'zk_fault_absorbed_by_retry',
                       'zk_fault_on_manifest_read',
                       'zk_fault_survived_by_agent'):
                if pk in res.probes:
                    total.probes[pk] = total.probes.get(pk, 0) + \
                        res.probes[pk]
            for fd in fired:
                if _inside_write_safe(fd):
                    total.probes['fault_inside_write_safe'] += 1
                    total.nontrivial += 1
                if fd['kind'] in ('crash', 'crash_after') and (
                        fd['call'] in ('fchmod', 'fchown') or
                        (fd['call'] == 'replace' and
                         fd['kind'] == 'crash')) and fd['name'] != READY:
                    total.probes['crash_between_write_and_replace'] += 1
            total.fps.extend(res.fps)
            digests.append(res.digest)
            if res.violation is not None:
                res.probes = total.probes
                res.faults = total.faults
                res.nontrivial = total.nontrivial
                res.steps = total.steps
                res.sim_s = total.sim_s
                res.fps = total.fps
                return res
        return None


ENGINE = CacheSim()
