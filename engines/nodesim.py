"""nodesim: the node-side application configuration manager (C13).

System under simulation, on a real private node root on tmpfs:

* the REAL ``treadmill.appcfgmgr.AppCfgMgr`` handlers (``_on_created``,
  ``_on_modified``, ``_on_deleted``, ``_first_sync``, ``_synchronize``,
  ``_configure``, ``_terminate``) fed by a REAL ``dirwatch.DirWatcher`` (kernel
  inotify) on cache/; the scheduler decides when ``process_events`` runs;
* the REAL ``appcfg.configure.configure()`` (s6 service directory, app.json,
  manifest.yml, trace event);
* the REAL ``monitor.MonitorContainerDown`` / ``MonitorContainerCleanup``
  tombstone actions, the REAL ``appcfg.abort`` helpers;
* the REAL ``cleanup.Cleanup`` (``_add_cleanup_app``, ``_remove_cleanup_app``,
  ``_sync``, ``invoke``) and the REAL ``RuntimeBase.finish()``;
* the cache writer follows ``eventmgr.EventMgr`` (``fs.write_safe`` with the
  same prefix, ``os.unlink``, the REAL ``EventMgr._cache_notify``).

Simulated: the clock, the s6 supervision tree (a model: which container
directories are supervised, who dies on ``svscanctl -an``, the tombstone a
container's finish script writes), the container runtime's ``_finish``, the
``st_ctime``/``st_ino`` of cache files (virtual clock, inode table with reuse),
directory listing order, temp-file names.  See DESIGN.md section 4, C13.
"""

import collections
import configparser
import errno
import importlib
import io
import os
import re

import jinja2

import simkit
from simkit import HarnessError, SimProcessExit
from simkit import clock as clockmod
from simkit import engine as enginemod
from simkit import fsseam
from simkit import log as logmod
from simkit import rng as rngmod

from treadmill import plugin_manager
from treadmill import subproc
from treadmill import context
from treadmill import appenv
from treadmill import appcfg
from treadmill import appcfgmgr
from treadmill import cleanup as cleanupmod
from treadmill import dirwatch
from treadmill import eventmgr
from treadmill import exc
from treadmill import fs
from treadmill import monitor
from treadmill import runtime as app_runtime
from treadmill import supervisor
from treadmill import templates
from treadmill import utils
from treadmill import yamlwrapper as yaml
from treadmill.appcfg import abort as app_abort
from treadmill.appcfg import configure as real_app_cfg
from treadmill.appcfg import manifest as app_manifest
from treadmill.supervisor import _utils as supervisor_utils
from treadmill.runtime import runtime_base

from oracles import nodecheck

RUNTIME = 'linux'
SERVICE = 'web'

INSTANCES = (
    'proid.app#0000000001',
    'proid.app#0000000002',
    'proid.web-x#0000000007',
    'proid.db#0000000003',
)


# ---------------------------------------------------------------------------
# environment shims (DESIGN.md 2.6): not seams of the code under test

class _EntryPoints:
    """plugin_manager.load/names resolved from $VERIF_REPO/entry_points.txt."""

    def __init__(self):
        self._cp = configparser.ConfigParser()
        self._cp.read(os.path.join(simkit.REPO, 'entry_points.txt'))

    def load(self, namespace, name):
        try:
            value = self._cp[namespace][name]
        except KeyError:
            raise KeyError('Entry point not found: %r:%r' % (namespace, name))
        modname, _sep, attrs = value.partition(':')
        obj = importlib.import_module(modname.strip())
        for attr in [a for a in attrs.strip().split('.') if a]:
            obj = getattr(obj, attr)
        return obj

    def names(self, namespace):
        if not self._cp.has_section(namespace):
            return []
        return list(self._cp[namespace].keys())


class _Aliases(dict):
    """subproc alias table: every alias resolves to /bin/true."""

    def __contains__(self, key):
        return True

    def __getitem__(self, key):
        return '/bin/true'

    def get(self, key, default=None):
        return '/bin/true'


class _JinjaMemo:
    """`jinja2` as seen by treadmill.templates: one memoised Environment, so
    the s6 templates are compiled once per process instead of once per call
    (same loader, same templates, same output)."""

    def __init__(self):
        self._env = None

    def Environment(self, *args, **kwargs):  # pylint: disable=invalid-name
        if self._env is None:
            self._env = jinja2.Environment(*args, **kwargs)
        return self._env

    def __getattr__(self, name):
        return getattr(jinja2, name)


# templates/s6.finish renders
#     define TOMBID "<tombstone id>,${EXITINFO}"
#     ...
#     touch "<tombstone dir>/${TOMBID}"
_TOMBSTONE_RE = re.compile(
    r'TOMBID "(?P<id>[^"\n]*),\$\{EXITINFO\}"[\s\S]*?'
    r'"(?P<dir>[^"\n]*)/\$\{TOMBID\}"')


_ENTRY_POINTS = _EntryPoints()
_JINJA = _JinjaMemo()


class _DetTempfile:
    """`tempfile` as seen by treadmill.fs: names from a counter."""

    def __init__(self):
        self._n = 0

    def _name(self, dir_, prefix, suffix):
        self._n += 1
        return os.path.join(dir_, '%ssim%06d%s' % (prefix, self._n, suffix))

    def mktemp(self, suffix='', prefix='tmp', dir=None):
        # pylint: disable=redefined-builtin
        return self._name(dir, prefix, suffix)

    def NamedTemporaryFile(self, mode='w+b', dir=None, delete=True,
                           prefix='tmp', suffix='', **_kw):
        # pylint: disable=redefined-builtin,invalid-name
        if delete:
            raise HarnessError('NamedTemporaryFile(delete=True) not modelled')
        return io.open(self._name(dir, prefix, suffix),
                       mode.replace('w', 'x'))

    def __getattr__(self, name):
        raise HarnessError('unexpected tempfile.%s in treadmill.fs' % name)


class _AppcfgOS:
    """`os` as seen by treadmill.appcfg: `stat` comes from the harness inode
    table (World.stat), everything else is the real module.  (Not
    fsseam.SeamOS: this seam must own `stat`.)"""

    def __init__(self, world):
        self._world = world

    def stat(self, path, *args, **kwargs):
        self._world.cfg_point('stat')
        return self._world.stat(path, *args, **kwargs)

    def __getattr__(self, name):
        return getattr(os, name)


class _PointModule:
    """A module (`io`, `shutil`) as seen by one module of the code under
    test: the named functions are pre-emption points of a running
    configure() (World.cfg_point), everything else is the real module."""

    def __init__(self, world, real, names):
        self._real = real
        for name in names:
            setattr(self, name, _pointed(world, getattr(real, name), name))

    def __getattr__(self, name):
        return getattr(self._real, name)


def _pointed(world, func, label):
    def call(*args, **kwargs):
        world.cfg_point(label)
        return func(*args, **kwargs)
    return call


class _FakeStat:
    """os.stat_result with st_ctime / st_ino from the harness inode table."""

    def __init__(self, real, ctime_us, ino):
        self._real = real
        self.st_ctime = ctime_us / 1000000.0
        self.st_ctime_ns = ctime_us * 1000
        self.st_ino = ino

    def __getattr__(self, name):
        return getattr(self._real, name)


class _SimRuntime(runtime_base.RuntimeBase):
    """Container runtime whose resource release (`_finish`) does nothing; the
    REAL RuntimeBase.finish() (ensure_not_supervised, rmtree) is inherited."""

    __slots__ = ()

    def _can_run(self, manifest):
        return True

    def _run(self, manifest):
        raise HarnessError('runtime.run is not part of this simulation')

    def _finish(self):
        pass

    def kill(self):
        pass


class _CfgSeam:
    """Stands in for `treadmill.appcfgmgr.app_cfg` (the configure module)."""

    def __init__(self, world):
        self._world = world

    def configure(self, tm_env, event_file, runtime, runtime_param=None):
        return self._world.configure(tm_env, event_file, runtime,
                                     runtime_param)

    def __getattr__(self, name):
        return getattr(real_app_cfg, name)


def _action_str(actions):
    """'-an' style action string (supervisor.control_* build the same)."""
    if isinstance(actions, (list, tuple)):
        return ''.join(a.value for a in actions)
    return actions.value


class _ObservedWatcher(dirwatch.DirWatcher):
    """The real DirWatcher; `_read_events` additionally reports what one
    read of the inotify queue returned (reach probe only)."""

    __slots__ = ('observer',)

    def _read_events(self):
        events = super(_ObservedWatcher, self)._read_events()
        self.observer(events)
        return events


def _make_watcher(path):
    """inotify instances are a per-user resource shared with every other
    check running on this machine: wait (real time, outside the simulated
    world) when none is left."""
    for attempt in range(600):
        try:
            return _ObservedWatcher(path)
        except OSError as err:
            if err.errno != errno.EMFILE or attempt == 599:
                raise
            simkit.REAL_SLEEP(0.1)
    raise HarnessError('unreachable')


# ---------------------------------------------------------------------------

class World:
    """The node root, the real actors, the harness truth.  Ops are total."""

    PROBES = ('configures', 'configure_failed', 'terminates', 'first_syncs',
              'syncs', 'restarts_manager', 'restarts_node',
              'regenerated_while_cleanup_pending', 'finished_exitinfo',
              'finished_aborted', 'finished_oom', 'cleanup_completed',
              'cleanup_apps_added', 'cleanup_apps_removed',
              'events_batched_delete_create', 'inode_reused',
              'inode_reused_same_instance', 'rewrites_while_unready',
              'tombstones_written', 'tombstones_from_nuke',
              'tombstones_processed', 'monitor_moved_link',
              'sync_with_cleanup_and_running', 'settled_checks',
              'events_ignored_inactive', 'containers_started',
              'reconfigured_existing_dir', 'sync_made_cleanup_link',
              'preempted_delete', 'configure_entry_vanished')
    FAULTS = ('configure_setup_error', 'configure_generic_error',
              'configure_late_error', 'bad_manifest', 'inode_reuse',
              'manager_killed', 'node_restarted', 'cleanup_restarted',
              'preempt_inside_configure',
              'preempt_inside_configure_this_entry')

    def __init__(self, config, clock, log, root, seam):
        self.config = config
        self.clock = clock
        self.log = log
        self.root = root
        self.seam = seam
        self.violation = None
        self.step = 0
        self.fps = []
        self.nontrivial = 0
        self.probes = {k: 0 for k in self.PROBES}
        self.faults = {k: 0 for k in self.FAULTS}

        self.tm_env = appenv.AppEnvironment(root)
        env = self.tm_env
        for path in (env.cache_dir, env.apps_dir, env.running_dir,
                     env.cleanup_dir, env.cleaning_dir, env.cleanup_apps_dir,
                     env.app_events_dir, env.running_tombstone_dir,
                     env.cleanup_tombstone_dir, env.watchdog_dir):
            os.makedirs(path, exist_ok=True)

        # truth
        self.cache = {}            # inst -> dict(gen, ver, bad, ctime_us, ino)
        self.gens = {}             # inst -> last generation number
        self.vers = 0
        self.live_inos = {}        # ino -> inst
        self.free_inos = []        # freed inode numbers, most recent last
        self.ino_last_owner = {}   # ino -> inst
        self.next_ino = 7001
        self.containers = {}       # cname -> dict(inst, gen, configures, ...)
        self.failed = set()        # (inst, gen) whose injected failure fired
        self.links = {}
        self.writer_ready = False
        self.unique_name_collisions = 0
        self.mgr_died = 0
        self.by_real_inode = {}    # (st_dev, st_ino) of a cache file -> inst
        self.cache_inode_changes = 0
        self.preempted_replace = 0

        # provenance: which real function performed which link operation
        self.hist = {}             # cname -> [dict(ev, where, by)]
        self.ctx_actor = None
        self.ctx_what = None
        self.in_sync = 0
        self.in_terminate = 0
        self.in_configure = 0
        self.cur_tomb_origin = None
        self.tomb_origin = {}      # tombstone path -> container that wrote it
        self._nested_fs = 0

        # supervision model
        self.sup = {}              # cname -> dict(alive)
        self.tombstones = []       # paths in creation order

        # actors
        self.writer = eventmgr.EventMgr(root)
        self.mgr = None
        self.watch = None
        self.mgr_ready_evt = False
        self.sync_unchanged = None
        self.cur_fail = None
        self.cur_preempt = None
        self.raced = {}            # inst -> 'deleted'|'replaced' inside the
        #                            current / last synchronisation
        self.cfg_calls = 0
        # the real configure() that is running now: its file-system calls
        # are pre-emption points (numbered from 1 within the call)
        self.cfg_running = None    # instance being configured
        self.cfg_points = 0
        self.cfg_points_max = 0
        self.cfg_inside_fired = 0
        self.in_preempt = False
        self.half_configured_left = 0
        self.partial = {}          # cname -> record of a container directory
        #                            a configure() that did not complete left
        self.mon = monitor.Monitor(env, None)
        self.mon._tombstones = collections.deque()   # as Monitor._configure
        self.h_cleanup = plugin_manager.load('treadmill.tombstones',
                                             'container-cleanup')(env, {})
        self.h_down = plugin_manager.load('treadmill.tombstones',
                                          'container-down')(env, {})
        self.cleaner = cleanupmod.Cleanup(env)
        self.cl_events = collections.deque()

    # -- plumbing ------------------------------------------------------------
    def fail(self, sig, detail):
        if self.violation is None:
            self.violation = {'sig': sig, 'detail': detail, 'step': self.step}

    def check(self, bad):
        if bad is not None:
            self.fail(bad[0], bad[1])

    def close(self):
        self._close_watch()

    def _close_watch(self):
        if self.watch is not None:
            try:
                self.watch.inotify.close()
            finally:
                self.watch = None

    def _cache_names(self):
        return sorted(n for n in os.listdir(self.tm_env.cache_dir)
                      if not n.startswith('.'))

    def _read_links(self):
        env = self.tm_env
        return nodecheck.read_links(env.running_dir, env.cleanup_dir,
                                    env.apps_dir)

    def _reconcile_cache(self):
        """The manager removes the cache file of a failed configure."""
        actual = set(self._cache_names())
        for inst in sorted(self.cache):
            if inst not in actual:
                self._forget_cache(inst)
                self.log.ev('cache-entry-removed-by-manager', inst)

    def _forget_cache(self, inst):
        ent = self.cache.pop(inst)
        self.by_real_inode.pop(ent['real_inode'], None)
        self.live_inos.pop(ent['ino'], None)
        self.free_inos.append(ent['ino'])
        self.vers += 1

    def _sync_finished_truth(self):
        env = self.tm_env
        for cname in sorted(self.containers):
            rec = self.containers[cname]
            if rec['finished']:
                continue
            found = nodecheck.markers(env.apps_dir, cname)
            if found:
                rec['finished'] = found[0]

    def stat(self, path, *args, **kwargs):
        """os.stat as seen by treadmill.appcfg (gen_uniqueid).

        Any name of the inode of a cache entry (hard links share it) gets the
        simulated st_ino / st_ctime of that entry."""
        real = os.stat(path, *args, **kwargs)
        inst = self.by_real_inode.get((real.st_dev, real.st_ino))
        ent = self.cache.get(inst) if inst is not None else None
        if ent is not None:
            self._refresh_ctime(inst, real)
            return _FakeStat(real, ent['ctime_us'], ent['ino'])
        return real

    @staticmethod
    def _inode_state(real):
        """What the kernel changes together with st_ctime.  On this kernel
        (multigrain timestamps, the entry was stat()ed when it was written)
        every inode change gives a new st_ctime_ns; the other fields are a
        second line of detection."""
        return (real.st_ctime_ns, real.st_nlink, real.st_mode, real.st_uid,
                real.st_gid, real.st_size, real.st_mtime_ns)

    def _refresh_ctime(self, inst, real=None):
        """st_ctime semantics: whenever the kernel changed the inode of the
        cache entry (link/unlink of another name, chmod, chown, rename,
        write, ...), its simulated ctime becomes the current simulated time.
        The cache ENTRY (generation, version) is unchanged by that."""
        ent = self.cache[inst]
        if real is None:
            try:
                real = os.stat(os.path.join(self.tm_env.cache_dir, inst))
            except FileNotFoundError:
                return
            if (real.st_dev, real.st_ino) != ent['real_inode']:
                return        # replaced behind the harness: reconciled later
        state = self._inode_state(real)
        if state != ent['real_state']:
            ent['real_state'] = state
            ent['ctime_us'] = self.clock.us
            self.cache_inode_changes += 1
            self.log.ev('cache-inode-changed', inst, real.st_nlink)

    def _refresh_ctimes(self):
        for inst in sorted(self.cache):
            self._refresh_ctime(inst)

    # -- the configure seam ----------------------------------------------------
    def configure(self, tm_env, event_file, runtime, runtime_param):
        inst = os.path.basename(event_file)
        self.cfg_calls += 1
        # pre-emption point: the event manager is another process; between
        # the manager's listing of cache/ (or the event it is handling) and
        # this configure() it may delete or replace cache entries
        for pre in self.cur_preempt or ():
            if pre.get('k') == self.cfg_calls and pre.get('at') is None:
                self._preempt(pre, inst)
        ent = self.cache.get(inst)
        fault = None
        if self.cur_fail and self.cur_fail.get('k') == self.cfg_calls:
            fault = self.cur_fail.get('kind')
        if fault in ('setup', 'generic'):
            self.faults['configure_%s_error' % fault] += 1
            self.probes['configure_failed'] += 1
            if ent is not None:
                self.failed.add((inst, ent['gen']))
            self.log.ev('configure', inst, 'injected-' + fault)
            if fault == 'setup':
                raise exc.ContainerSetupError(
                    'injected', app_abort.AbortedReason.SCHEDULER)
            raise RuntimeError('injected configure failure')
        pre_exists = bool(ent and ent.get('uname')) and os.path.isdir(
            os.path.join(self.tm_env.apps_dir, ent['uname']))
        apps_before = set(os.listdir(self.tm_env.apps_dir))
        fired_before = self.cfg_inside_fired
        self.cfg_running = inst
        self.cfg_points = 0
        try:
            cdir = real_app_cfg.configure(tm_env, event_file, runtime,
                                          runtime_param)
        except Exception as err:
            self.cfg_running = None
            self.probes['configure_failed'] += 1
            self._note_partial(apps_before, inst, ent)
            if self.cfg_inside_fired != fired_before:
                # the cache changed under the running configure(): whatever
                # it raises is the manager's to handle (_configure discards)
                self.log.ev('configure', inst, 'raised-after-preemption',
                            type(err).__name__)
                raise
            if ent is not None and not ent['bad']:
                # the real configure() refused a manifest the harness
                # considers valid: the harness is wrong about something
                raise HarnessError('configure(%s) raised %r' % (inst, err))
            self.log.ev('configure', inst, 'raised', type(err).__name__)
            raise
        finally:
            self.cfg_running = None
            self.cfg_points_max = max(self.cfg_points_max, self.cfg_points)
        self._refresh_ctimes()
        if cdir is None:
            if ent is not None:
                self.probes['configure_entry_vanished'] += 1
            self._note_partial(apps_before, inst, ent)
            self.log.ev('configure', inst, None)
            return None
        cname = os.path.basename(cdir)
        if self.cfg_inside_fired != fired_before:
            # the entry may have been replaced while configure() was between
            # two steps: the container is the one of the generation whose
            # unique name it carries (the one the manifest was loaded from)
            now = self.cache.get(inst)
            if (ent is None or ent.get('uname') != cname) and \
                    now is not None and now.get('uname') == cname:
                ent = now
        self.partial.pop(cname, None)
        gen = ent['gen'] if ent is not None else None
        rec = self.containers.get(cname)
        if rec is None:
            self.containers[cname] = {
                'inst': inst, 'gen': gen, 'configures': 1, 'finished': None,
                'had_running': False, 'failed': False,
                'last_configure': self._by(cname),
                'key': self._uid_key(ent), 'incarnation': 1}
        else:
            if rec['inst'] != inst or rec['gen'] != gen:
                # provenance: do the 77 bits gen_uniqueid keeps (13 bits of
                # the ctime in us, inode, instance id) really coincide?
                same = rec['inst'] == inst and rec['key'] is not None and \
                    rec['key'] == self._uid_key(ent)
                self.fail('C13:container-name-reused-across-generations:' +
                          ('via-unique-id-truncation' if same
                           else 'via-other'),
                          'configure of cache/%s generation %s produced '
                          'container %s, which is the container of '
                          'generation %s' % (inst, gen, cname, rec['gen']))
            rec['configures'] += 1
            rec['last_configure'] = self._by(cname)
            if not pre_exists:
                # the directory of that name had been cleaned up: this is a
                # new container of the same cache entry
                rec['incarnation'] += 1
            self.probes['reconfigured_existing_dir'] += 1
        self.probes['configures'] += 1
        self.log.ev('configure', inst, gen, cname)
        if fault == 'late':
            self.faults['configure_late_error'] += 1
            self.probes['configure_failed'] += 1
            if ent is not None:
                self.failed.add((inst, ent['gen']))
            raise RuntimeError('injected failure after configure')
        return cdir

    def _note_partial(self, apps_before, inst, ent):
        """Container directories a configure() that did not complete made
        and left behind (truth: they belong to the entry it was given)."""
        for cname in sorted(set(os.listdir(self.tm_env.apps_dir)) -
                            apps_before):
            if cname in self.containers:
                continue
            self.half_configured_left += 1
            self.partial[cname] = {
                'inst': inst, 'gen': ent['gen'] if ent is not None else None,
                'configures': 0, 'finished': None, 'had_running': False,
                'failed': False, 'partial': True, 'last_configure': None,
                'key': self._uid_key(ent), 'incarnation': 1}
            self.log.ev('half-configured-left', cname)

    def cfg_point(self, label):
        """A file-system call of the real configure() that is running: the
        event manager (another process) may act right before it."""
        if self.cfg_running is None or self.in_preempt:
            return
        self.cfg_points += 1
        for pre in self.cur_preempt or ():
            if pre.get('k') == self.cfg_calls and \
                    pre.get('at') == self.cfg_points:
                self.in_preempt = True
                try:
                    self.log.ev('preempt-inside', self.cfg_points, label)
                    if self._preempt(pre, self.cfg_running,
                                     in_sync=bool(self.in_sync)):
                        self.cfg_inside_fired += 1
                        self.faults['preempt_inside_configure'] += 1
                        target = pre.get('inst') if not pre.get(
                            'do', '').endswith('-this') else self.cfg_running
                        if target == self.cfg_running:
                            self.faults[
                                'preempt_inside_configure_this_entry'] += 1
                finally:
                    self.in_preempt = False

    def _preempt(self, pre, this_inst, in_sync=True):
        """Nested world ops of the cache writer (recorded inside the op).
        True if the cache changed."""
        what = pre.get('do') or ''
        inst = this_inst if what.endswith('-this') else pre.get('inst')
        if what == 'put':
            if inst in self.cache or inst not in INSTANCES:
                return False
            self.log.ev('preempt', what, inst)
            nested = {'inst': inst, 'bad': False}
            if pre.get('ino') is not None:
                nested['ino'] = pre['ino']
            self.op_put(nested)
            if in_sync:
                self.raced[inst] = 'created'
            return True
        if inst not in self.cache:
            return False
        self.log.ev('preempt', what, inst)
        if what in ('del', 'del-this'):
            self.op_del({'inst': inst})
            if in_sync:
                self.raced[inst] = 'deleted'
            self.probes['preempted_delete'] += 1
            return True
        if what in ('replace', 'replace-this'):
            self.op_del({'inst': inst})
            nested = {'inst': inst, 'bad': False}
            if pre.get('ino') is not None:
                nested['ino'] = pre['ino']
            self.op_put(nested)
            if in_sync:
                self.raced[inst] = 'replaced'
            self.preempted_replace += 1
            return True
        return False

    # -- the supervision model (s6) --------------------------------------------
    def control_svscan(self, scan_dir, actions):
        acts = _action_str(actions)
        self.log.ev('svscanctl', os.path.basename(scan_dir), acts)
        if scan_dir != self.tm_env.running_dir:
            return
        env = self.tm_env
        targets = {}
        for name in sorted(os.listdir(env.running_dir)):
            if name.startswith('.'):
                continue
            full = os.path.join(env.running_dir, name)
            if os.path.islink(full) and os.path.isdir(full):
                targets[os.path.basename(os.readlink(full))] = name
        if 'a' in acts:
            for cname in sorted(targets):
                if cname not in self.sup:
                    self.sup[cname] = {'alive': True}
                    self.probes['containers_started'] += 1
                    self.log.ev('supervise', cname)
        if 'n' in acts:
            for cname in sorted(self.sup):
                if cname in targets:
                    continue
                state = self.sup.pop(cname)
                self.log.ev('nuke', cname, state['alive'])
                if state['alive'] and self.config['nuke_tombstones']:
                    self.probes['tombstones_from_nuke'] += 1
                    self._tombstone(cname, 0, 15)

    def control_service(self, service_dir, actions, wait=None, timeout=0):
        # pylint: disable=unused-argument
        cname = os.path.basename(os.path.normpath(str(service_dir)))
        acts = _action_str(actions)
        self.log.ev('svc', cname, acts)
        state = self.sup.get(cname)
        if state is not None and state['alive'] and 'd' in acts:
            state['alive'] = False
            self._tombstone(cname, self._exit_rc, self._exit_sig)
        return True

    def ensure_not_supervised(self, service_dir):
        cname = os.path.basename(os.path.normpath(str(service_dir)))
        if self.sup.pop(cname, None) is not None:
            self.log.ev('unsupervise', cname)

    _exit_rc = 0
    _exit_sig = 0

    def _tombstone(self, cname, rcode, sig):
        """What the container's s6 finish script does (templates/s6.finish,
        monitor_policy.tombstone.id == instance name, limit 0)."""
        # the id and the directory are the ones the REAL create_service
        # rendered into the container's finish script
        finish = os.path.join(self.tm_env.apps_dir, cname, 'finish')
        try:
            with io.open(finish) as f:
                found = _TOMBSTONE_RE.search(f.read())
        except FileNotFoundError:
            found = None
        if found is None:
            raise HarnessError('no tombstone line in %s' % finish)
        if found.group('dir') != self.tm_env.running_tombstone_dir:
            raise HarnessError('unexpected tombstone dir %r' %
                               found.group('dir'))
        name = '%s,%014.3f,%03d,%03d' % (found.group('id'), self.clock.peek(),
                                         rcode, sig)
        path = os.path.join(self.tm_env.running_tombstone_dir, name)
        if not os.path.exists(path):
            io.open(path, 'wb').close()
            self.tombstones.append(path)
            rec = self.containers.get(cname)
            self.tomb_origin[path] = (cname,
                                      rec['incarnation'] if rec else 0)
        self.probes['tombstones_written'] += 1
        self.log.ev('tombstone', name)

    # -- one handler call, then the invariants -----------------------------------
    def handler(self, actor, what, func, *args):
        """Run one handler of the code under test, then check the state."""
        self.log.ev('call', actor, what)
        if actor == 'mgr' and what in ('created', 'deleted') and \
                not os.path.basename(args[0]).startswith('.') and \
                not (self.writer_ready and self.mgr_ready_evt):
            self.probes['events_ignored_inactive'] += 1
        saved = (self.ctx_actor, self.ctx_what)
        self.ctx_actor, self.ctx_what = actor, what
        try:
            return func(*args)
        finally:
            self.ctx_actor, self.ctx_what = saved
            self.after_handler(actor, what)

    # -- the link-operation seam (treadmill.fs.replace / symlink_safe) --------
    def _by(self, cname):
        """Label of the real function (and its context) acting right now."""
        actor = self.ctx_actor
        if actor == 'mgr':
            if self.in_terminate:
                func = 'terminate'
            elif self.in_configure:
                func = 'configure'
            elif self.in_sync:
                return 'sync'
            else:
                return 'other'
            if self.in_sync:
                return func + '-in-sync'
            return '%s-on-%s-event' % (func, self.ctx_what)
        if actor == 'monitor':
            if self.cur_tomb_origin is None:
                return 'other'
            origin, incarnation = self.cur_tomb_origin
            r_c = self.containers.get(cname)
            if origin == cname:
                if r_c is not None and r_c['incarnation'] != incarnation:
                    # written by a container of the same cache entry whose
                    # directory was cleaned up and configured again since
                    return 'tombstone-of-earlier-incarnation'
                return 'tombstone-of-own-container'
            r_o = self.containers.get(origin)
            if r_o and r_c and r_o['inst'] == r_c['inst'] and \
                    r_o['gen'] < r_c['gen']:
                return 'tombstone-of-older-generation'
            return 'tombstone-of-other-container'
        return actor or 'other'

    @staticmethod
    def _uid_key(ent):
        """What gen_uniqueid keeps of (ctime, inode): 77 bits = 13 bits of
        the ctime in microseconds on top of the 64-bit inode/instance word."""
        if ent is None:
            return None
        # exactly as gen_uniqueid derives it from the float st_ctime
        event_time = int((ent['ctime_us'] / 1000000.0) * 10**6)
        return (event_time & 0x1fff, ent['ino'])

    def _link_kind(self, path):
        parent = os.path.dirname(path)
        if parent == self.tm_env.running_dir:
            return 'running'
        if parent == self.tm_env.cleanup_dir:
            return 'cleanup'
        return None

    @staticmethod
    def _link_target(path):
        try:
            return os.path.basename(os.readlink(path))
        except OSError:
            return None

    def _note(self, cname, event, where, by=None):
        self.hist.setdefault(cname, []).append(
            {'ev': event, 'where': where,
             'by': by if by is not None else self._by(cname)})

    def fs_symlink_safe(self, link, target):
        kind = self._link_kind(link)
        prev = self._link_target(link) if kind else None
        self._nested_fs += 1
        try:
            ret = _REAL_SYMLINK_SAFE(link, target)
        finally:
            self._nested_fs -= 1
        if kind:
            cname = os.path.basename(target)
            self._note(cname, 'link', kind)
            if prev is not None and prev != cname:
                self._note(prev, 'overwritten', kind, self._by(cname))
        return ret

    def fs_replace(self, path_from, path_to):
        if self._nested_fs:
            return _REAL_REPLACE(path_from, path_to)
        skind = self._link_kind(path_from)
        dkind = self._link_kind(path_to)
        moved = self._link_target(path_from) if skind else None
        prev = self._link_target(path_to) if dkind else None
        ret = _REAL_REPLACE(path_from, path_to)
        if moved is not None:
            self._note(moved, 'unlink', skind)
            if dkind:
                self._note(moved, 'link', dkind)
                if prev is not None and prev != moved:
                    self._note(prev, 'overwritten', dkind, self._by(moved))
        return ret

    def after_handler(self, actor, what):
        env = self.tm_env
        old = self.links
        new = self._read_links()
        self._reconcile_cache()
        self._refresh_ctimes()
        bad = nodecheck.finished_restarted(old, new, env.apps_dir, self.hist)
        if bad is None:
            bad = nodecheck.two_links(new, env.apps_dir, self.hist)
        if bad is not None:
            self.fail(bad[0], '%s (after %s %s)' % (bad[1], actor, what))
        self._sync_finished_truth()
        for (kind, _name), target in new.items():
            if kind == 'running' and target in self.containers:
                self.containers[target]['had_running'] = True
        # what the cleanup service's watcher would be told
        old_c = {n: t for (k, n), t in old.items() if k == 'cleanup'}
        new_c = {n: t for (k, n), t in new.items() if k == 'cleanup'}
        for name in sorted(old_c):
            if name not in new_c:
                self.cl_events.append(('deleted', name))
        for name in sorted(new_c):
            if old_c.get(name) != new_c[name]:
                self.cl_events.append(('created', name))
        if actor == 'monitor':
            for (kind, name), target in old.items():
                if kind == 'running' and (kind, name) not in new:
                    self.probes['monitor_moved_link'] += 1
        self.links = new
        self.fps.append(logmod.fingerprint(self.abstract()))
        self.log.ev('links', sorted('%s/%s>%s' % (k, n, t)
                                    for (k, n), t in new.items()))

    def abstract(self):
        """Abstract state: no names, no unique ids."""
        env = self.tm_env
        per_inst = []
        for inst in INSTANCES:
            ent = self.cache.get(inst)
            conts = []
            for cname in sorted(self.containers):
                rec = self.containers[cname]
                if rec['inst'] != inst or \
                        not nodecheck.container_exists(env.apps_dir, cname):
                    continue
                rel = (ent['gen'] - rec['gen']) if ent and rec['gen'] else -1
                refs = sorted(('r' if k == 'running' else
                               ('ci' if n == inst else 'cc'))
                              for (k, n), t in self.links.items()
                              if t == cname)
                conts.append([min(rel, 3), bool(rec['finished']),
                              nodecheck.is_terminated(env.apps_dir, cname),
                              cname in self.sup, refs])
            conts.sort(key=repr)
            per_inst.append([ent is not None, bool(ent and ent['bad']),
                             conts])
        return [per_inst, self.writer_ready, self.mgr is not None,
                bool(self.mgr is not None and self.mgr_ready_evt),
                len(self.cl_events) > 0,
                sum(1 for p in self.tombstones if os.path.exists(p)) > 0]

    # -- hooks around the REAL _synchronize / _terminate (class seams) -----------
    def pre_sync(self):
        env = self.tm_env
        self.probes['syncs'] += 1
        self.links = self._read_links()
        self._reconcile_cache()
        kinds = {k for (k, _n) in self.links}
        if 'running' in kinds and 'cleanup' in kinds:
            self.probes['sync_with_cleanup_and_running'] += 1
            self.nontrivial += 1
        self.log.ev('sync-begin')
        self.raced = {}
        return nodecheck.unchanged_set(self.links, self.cache,
                                       self.containers, env.apps_dir)

    def post_sync(self, unchanged):
        env = self.tm_env
        old = self.links
        links = self._read_links()
        self._reconcile_cache()
        self._sync_finished_truth()
        self.log.ev('sync-end')
        made = [n for (k, n) in links if k == 'cleanup' and (k, n) not in old]
        self.probes['sync_made_cleanup_link'] += len(made)
        hist = self.hist
        bad = nodecheck.finished_restarted(old, links, env.apps_dir, hist)
        if bad is None:
            bad = nodecheck.disturbed(unchanged, links, self.cache,
                                      self.containers, env.apps_dir,
                                      'at-sync', hist)
        if bad is None:
            bad = nodecheck.two_links(links, env.apps_dir, hist)
        # an instance whose cache entry the event manager changed while this
        # synchronisation was running is judged once its events are
        # processed ('settled'), not against a listing the sync could not see
        raced = self.raced
        conts = {c: r for c, r in self.containers.items()
                 if r['inst'] not in raced}
        f_links = {k: t for k, t in links.items()
                   if k[1] not in raced and
                   (t not in self.containers or t in conts)}
        f_cache = {i: e for i, e in self.cache.items() if i not in raced}
        if bad is None:
            bad = nodecheck.follow(f_links, f_cache, conts,
                                   self.failed, 'at-sync', hist)
        if bad is None:
            bad = nodecheck.uncleaned(f_links, f_cache, conts,
                                      env.apps_dir, False, 'at-sync', hist)
        self.check(bad)
        self.sync_unchanged = nodecheck.unchanged_set(
            links, self.cache, self.containers, env.apps_dir)

    def settled_check(self):
        """The manager has no event left and must be active."""
        env = self.tm_env
        self.probes['settled_checks'] += 1
        links = self.links
        hist = self.hist
        bad = nodecheck.follow(links, self.cache, self.containers,
                               self.failed, 'settled', hist)
        if bad is None:
            bad = nodecheck.uncleaned(links, self.cache, self.containers,
                                      env.apps_dir, True, 'settled', hist,
                                      self.raced)
        if bad is None and self.sync_unchanged is not None:
            bad = nodecheck.disturbed(self.sync_unchanged, links, self.cache,
                                      self.containers, env.apps_dir,
                                      'settled', hist)
        if bad is None and self.partial:
            # what a configure() that did not complete left in apps/: never
            # linked in running/, so it is in cleanup or removed by now
            bad = nodecheck.uncleaned(links, self.cache, self.partial,
                                      env.apps_dir, False, 'settled', hist,
                                      self.raced)
        self.check(bad)
        self.log.ev('settled')

    # -- manager ---------------------------------------------------------------
    def _new_manager(self):
        self._close_watch()
        self.mgr = appcfgmgr.AppCfgMgr(self.root, RUNTIME, None)
        # what AppCfgMgr.run() sets up before its loop
        self.mgr._is_active = False          # pylint: disable=protected-access
        watch = _make_watcher(self.tm_env.cache_dir)
        watch.observer = self._read_batch
        mgr = self.mgr
        watch.on_created = lambda p: self.handler(
            'mgr', 'created', mgr._on_created, p)
        watch.on_modified = lambda p: self.handler(
            'mgr', 'modified', mgr._on_modified, p)
        watch.on_deleted = lambda p: self.handler(
            'mgr', 'deleted', mgr._on_deleted, p)
        self.watch = watch
        self.mgr_ready_evt = False
        self.sync_unchanged = None

    def _mgr_quiet(self):
        return (self.watch is not None and not self.watch.event_list and
                not self.watch.wait_for_events(0))

    def _mgr_process(self, max_events):
        """One iteration of the body of AppCfgMgr.run()'s loop."""
        if self.mgr is None or not self.watch.wait_for_events(0):
            return False
        try:
            results = self.watch.process_events(max_events=max_events)
        except SimProcessExit as err:
            self._mgr_died('sys_exit(%s)' % err.code)
            return False
        except HarnessError:
            raise
        except Exception as err:  # pylint: disable=broad-except
            import traceback
            tback = traceback.extract_tb(err.__traceback__)
            where = [f.name for f in tback if 'appcfgmgr' in f.filename]
            self._mgr_died('%s in %s' % (type(err).__name__,
                                         '>'.join(where)))
            if '_synchronize' in where:
                self.fail('C13:synchronize-raises:%s:in-%s' % (
                    type(err).__name__, where[-1].lstrip('_')),
                          '_synchronize raised %r (%s:%s)' % (
                              err, os.path.basename(tback[-1].filename),
                              tback[-1].lineno))
            return False
        seen = []
        for event, path, _res in results:
            if path is None:
                seen.append('more')
                continue
            seen.append('%s:%s' % (event.value, os.path.basename(path)))
        self.log.ev('processed', seen)
        return True

    def _read_batch(self, events):
        """One read of the inotify queue: delete+create of one instance?"""
        pending_del = set()
        for event, path in events:
            name = os.path.basename(path)
            if name.startswith('.'):
                continue
            if event.value == 'deleted':
                pending_del.add(name)
            elif event.value == 'created' and name in pending_del:
                self.probes['events_batched_delete_create'] += 1
                pending_del.discard(name)
        self.log.ev('read', len(events))

    def _mgr_died(self, why):
        self.mgr_died += 1
        self.log.ev('mgr-died', why)
        self.mgr = None
        self._close_watch()

    def _maybe_settled(self):
        if (self.violation is None and self.mgr is not None and
                self.writer_ready and self.mgr_ready_evt and
                self._mgr_quiet()):
            self.settled_check()

    # -- ops ----------------------------------------------------------------------
    def apply(self, op):
        self.seam.begin(order=op.get('order', 0))
        self.cur_fail = op.get('fail')
        self.cur_preempt = op.get('preempt')
        self.cfg_calls = 0
        try:
            getattr(self, 'op_' + op['op'])(op)
        finally:
            self.seam.end()
            self.cur_fail = None
            self.cur_preempt = None
        self.clock.advance(0.001)

    def op_advance(self, op):
        self.clock.advance(op['dt'])

    # cache writer (EventMgr protocol)
    def op_put(self, op):
        inst = op['inst']
        if inst not in INSTANCES:
            return
        env = self.tm_env
        old = self.cache.get(inst)
        if old is not None and self.writer_ready:
            # EventMgr only re-writes an existing entry while not ready
            # (_synchronize(check_existing=True) before placement_ready)
            return
        ino = op.get('ino')
        if ino is None or ino in self.live_inos or ino >= self.next_ino:
            ino = self.next_ino
            self.next_ino += 1
        elif ino in self.free_inos:
            self.free_inos.remove(ino)
            self.probes['inode_reused'] += 1
            self.faults['inode_reuse'] += 1
            if self.ino_last_owner.get(ino) == inst:
                self.probes['inode_reused_same_instance'] += 1
        else:
            ino = self.next_ino
            self.next_ino += 1
        gen = self.gens.get(inst, 0) + 1
        self.gens[inst] = gen
        if old is not None:
            self.probes['rewrites_while_unready'] += 1
        for cname in sorted(self.containers):
            rec = self.containers[cname]
            if rec['inst'] == inst and rec['gen'] != gen and any(
                    k == 'cleanup' and t == cname
                    for (k, _n), t in self.links.items()):
                self.probes['regenerated_while_cleanup_pending'] += 1
                break
        bad = bool(op.get('bad'))
        if bad:
            self.faults['bad_manifest'] += 1
        manifest = {
            'proid': 'proid',
            'environment': 'bogus' if bad else 'dev',
            'services': [{'name': SERVICE, 'command': '/bin/sleep 5',
                          'restart': {'limit': 3, 'interval': 60}}],
            'cpu': '10%', 'memory': '100M', 'disk': '100M',
            'task': inst[inst.index('#') + 1:],
            'generation': gen,
        }
        # as EventMgr._cache
        fs.write_safe(
            os.path.join(env.cache_dir, inst),
            lambda f: yaml.dump(manifest, stream=f),
            prefix='.%s-' % inst, mode='w', permission=0o644)
        if old is not None:
            self.live_inos.pop(old['ino'], None)
            self.free_inos.append(old['ino'])
            self.by_real_inode.pop(old['real_inode'], None)
        self.vers += 1
        real = os.stat(os.path.join(env.cache_dir, inst))
        self.cache[inst] = {'gen': gen, 'ver': self.vers, 'bad': bad,
                            'ctime_us': self.clock.us, 'ino': ino,
                            'uname': None,
                            'real_inode': (real.st_dev, real.st_ino),
                            'real_state': self._inode_state(real)}
        self.by_real_inode[(real.st_dev, real.st_ino)] = inst
        self.live_inos[ino] = inst
        self.ino_last_owner[ino] = inst
        # provenance only: the name the real formula gives this generation
        # (77 bits of (ctime us << 64 | inode ^ instance id << 31))
        uname = appcfg.eventfile_unique_name(os.path.join(env.cache_dir,
                                                          inst))
        self.cache[inst]['uname'] = uname
        rec = self.containers.get(uname)
        self.cache[inst]['clash'] = None
        if rec is not None and rec['gen'] != gen:
            self.unique_name_collisions += 1
            self.cache[inst]['clash'] = (
                'via-unique-id-truncation'
                if rec['inst'] == inst and
                rec['key'] == self._uid_key(self.cache[inst])
                else 'via-unique-name-collision-other')
        self.log.ev('cache-put', inst, gen, ino, bad, uname,
                    self._uid_key(self.cache[inst])[0])

    def op_del(self, op):
        inst = op['inst']
        if inst not in self.cache:
            return
        os.unlink(os.path.join(self.tm_env.cache_dir, inst))
        self._forget_cache(inst)
        self.log.ev('cache-del', inst)

    def _notify(self):
        # the REAL EventMgr._cache_notify
        self.writer._cache_notify(self.writer_ready)
        if self.writer_ready:
            if self.mgr is not None:
                self.mgr_ready_evt = True
        else:
            self.mgr_ready_evt = False

    def op_ready(self, _op):
        self.writer_ready = True
        self._notify()

    def op_unready(self, _op):
        self.writer_ready = False
        self._notify()

    def op_notify(self, _op):
        self._notify()

    # manager
    def op_mgr_step(self, op):
        if self.mgr is None:
            return
        self._mgr_process(max(1, int(op.get('max_events', 5))))
        self._maybe_settled()

    def op_settle(self, _op):
        if self.mgr is None:
            return
        guard = 0
        while self.violation is None and self._mgr_process(5):
            guard += 1
            if guard > 200:
                raise HarnessError('manager never runs out of events')
        self._maybe_settled()

    def op_mgr_restart(self, _op):
        kinds = {k for (k, _n) in self.links}
        if self.mgr is not None:
            self.faults['manager_killed'] += 1
        if 'running' in kinds and 'cleanup' in kinds:
            self.nontrivial += 1
        self.probes['restarts_manager'] += 1
        self._new_manager()

    def op_node_restart(self, _op):
        env = self.tm_env
        self.probes['restarts_node'] += 1
        self.faults['node_restarted'] += 1
        self._close_watch()
        self.mgr = None
        # bootstrap/node/linux/bin/run_real.sh
        for path in (env.running_dir, env.cleanup_dir, env.cleaning_dir,
                     env.running_tombstone_dir, env.cleanup_tombstone_dir):
            for name in sorted(os.listdir(path)):
                full = os.path.join(path, name)
                if os.path.islink(full) or not os.path.isdir(full):
                    kind = self._link_kind(full)
                    target = self._link_target(full) if kind else None
                    os.unlink(full)
                    if target is not None:
                        self._note(target, 'unlink', kind, 'node-restart')
        self.sup.clear()
        self.tombstones = []
        self.mon._tombstones.clear()
        self.cl_events.clear()
        self.links = self._read_links()
        # every service starts again: eventmgr first reports "not ready"
        self.writer_ready = False
        self.writer = eventmgr.EventMgr(self.root)
        self.writer._cache_notify(False)
        self.cleaner = cleanupmod.Cleanup(env)
        self.handler('cleanup', 'sync', self.cleaner._sync)
        self._new_manager()

    # containers finishing on their own
    def op_finish(self, op):
        inst = op['inst']
        env = self.tm_env
        cname = self.links.get(('running', inst))
        state = self.sup.get(cname) if cname is not None else None
        if state is None or not state['alive']:
            return
        kind = op['kind']
        cdir = os.path.join(env.apps_dir, cname)
        data_dir = os.path.join(cdir, 'data')
        self._exit_rc = int(op.get('rc', 0))
        self._exit_sig = int(op.get('sig', 0))
        try:
            if kind == 'exitinfo':
                self.handler('monitor', 'container-down', self.h_down.execute,
                             {'id': '%s,%s' % (cname, SERVICE),
                              'return_code': self._exit_rc, 'signal': 0,
                              'timestamp': self.clock.peek()})
            elif kind == 'aborted':
                self.handler('runtime', 'abort', app_abort.abort, data_dir,
                             app_abort.AbortedReason.PORTS, 'injected')
            else:
                # services/cgroup_service.py: touch data/oom, then the kernel
                # kills the container
                self.handler('runtime', 'oom', self._oom, cdir)
        finally:
            self._exit_rc = 0
            self._exit_sig = 0
        self.probes['finished_' + kind] += 1

    def _oom(self, cdir):
        utils.touch(os.path.join(cdir, 'data', 'oom'))
        supervisor.control_service(cdir, supervisor.ServiceControlAction.down)

    def op_monitor_step(self, _op):
        """The body of Monitor.run()'s loop: every pending tombstone."""
        mon = self.mon
        pending = [p for p in self.tombstones if os.path.exists(p)]
        self.tombstones = []
        for path in pending:
            mon._on_created(path, self.h_cleanup)
        for path, handler, data in list(mon._tombstones):
            self.probes['tombstones_processed'] += 1
            self.cur_tomb_origin = self.tomb_origin.get(path)
            try:
                done = self.handler('monitor', 'container-cleanup',
                                    handler.execute, data)
            except HarnessError:
                raise
            except Exception as err:  # pylint: disable=broad-except
                # the monitor process dies; the tombstone stays
                self.log.ev('monitor-died', type(err).__name__)
                self.tombstones.append(path)
                continue
            finally:
                self.cur_tomb_origin = None
            if done:
                fs.rm_safe(path)
        mon._tombstones.clear()

    # cleanup service
    def op_cleanup_step(self, _op):
        """One watcher event of Cleanup.run() (_MAX_REQUEST_PER_CYCLE = 1)."""
        if not self.cl_events:
            return
        kind, name = self.cl_events.popleft()
        path = os.path.join(self.tm_env.cleanup_dir, name)
        if kind == 'created':
            self.probes['cleanup_apps_added'] += 1
            self.handler('cleanup', 'created', self.cleaner._add_cleanup_app,
                         path)
        else:
            self.probes['cleanup_apps_removed'] += 1
            self.handler('cleanup', 'deleted',
                         self.cleaner._remove_cleanup_app, path)

    def op_cleanup_invoke(self, op):
        """`treadmill sproc cleanup instance <name>` run by the cleaning
        supervisor: only for a configured cleanup app."""
        name = op['name']
        env = self.tm_env
        if not os.path.islink(os.path.join(env.cleaning_dir, name)):
            return
        link = os.path.join(env.cleanup_dir, name)
        had = os.path.islink(link)
        self.handler('cleanup', 'invoke', self.cleaner.invoke, RUNTIME, name,
                     {})
        if had and not os.path.lexists(link):
            self.probes['cleanup_completed'] += 1

    def op_cleanup_restart(self, _op):
        self.faults['cleanup_restarted'] += 1
        self.cleaner = cleanupmod.Cleanup(self.tm_env)
        self.cl_events.clear()
        self.handler('cleanup', 'sync', self.cleaner._sync)


# ---------------------------------------------------------------------------
# generation

OP_WEIGHTS = [
    ('put', 14), ('del', 8), ('ready', 4), ('unready', 2), ('notify', 5),
    ('advance', 2), ('mgr_step', 22), ('settle', 6), ('mgr_restart', 3),
    ('node_restart', 1.2), ('finish', 5), ('monitor_step', 6),
    ('cleanup_step', 8), ('cleanup_invoke', 6), ('cleanup_restart', 0.7),
]

SCENARIOS = ('regen_restart', 'batch', 'rewrite', 'finish_restart', 'stale',
             'between', 'regen_node_restart', 'double_terminate',
             'finish_before_stale_created', 'reboot_race',
             'evict_during_configure')


class Generator:
    """Adaptive generator: looks at the world, emits concrete ops."""

    def __init__(self, config, streams):
        self.config = config
        self.rng = streams.get('gen')
        self.sched = streams.get('sched')
        self.fault = streams.get('fault')
        self.fsorder = streams.get('fsorder')
        self.queue = []
        self.points_max = 0        # file-system calls of one configure()
        self.insts = list(INSTANCES[:config['n_inst']])
        self.weights = [(k, w * config['wmul'].get(k, 1.0))
                        for k, w in OP_WEIGHTS]

    # -- decisions that are recorded in the op
    def _order(self):
        return self.fsorder.randint(0, 5)

    def _mgr(self, kind, **extra):
        op = {'op': kind, 'order': self._order()}
        op.update(extra)
        if self.fault.random() < self.config['p_fail']:
            op['fail'] = {'k': self.fault.randint(1, 3),
                          'kind': self.fault.choice(
                              ['setup', 'generic', 'late'])}
        if self.sched.random() < self.config.get('p_preempt', 0.0):
            op['preempt'] = [self._preempt()]
        if self.sched.random() < self.config.get('p_preempt_inside', 0.0):
            op.setdefault('preempt', []).append(self._preempt_inside())
        return op

    def _preempt_inside(self, k=None, do=None, at=None):
        """The cache writer acts right before the `at`-th file-system call
        of the k-th configure() of the op."""
        if do is None:
            do = self.sched.choice(['del-this', 'del-this', 'del-this',
                                    'replace-this', 'del', 'put', 'replace'])
        if at is None:
            at = self.sched.randint(1, max(8, self.points_max))
        pre = {'k': k if k is not None else
                    self.sched.choice([1, 1, 1, 2, 3]),
               'at': at, 'do': do}
        if not do.endswith('-this'):
            pre['inst'] = self.sched.choice(self.insts)
        return pre

    def _preempt(self, k=None, do=None):
        """The cache writer acts between the manager's listing / event and
        the k-th configure() of the op."""
        if do is None:
            kinds = ['del-this', 'del-this', 'del']
            if self.config.get('preempt_replace'):
                kinds += ['replace-this', 'replace']
            do = self.sched.choice(kinds)
        pre = {'k': k if k is not None else self.sched.randint(1, 3),
               'do': do}
        if not do.endswith('-this'):
            pre['inst'] = self.sched.choice(self.insts)
        return pre

    def _step(self, n=None):
        if n is None:
            n = self.sched.choice([1, 1, 2, 5])
        return self._mgr('mgr_step', max_events=n)

    def _put(self, world, inst, bad=None):
        if bad is None:
            bad = self.fault.random() < self.config['p_bad']
        ino = None
        if world.free_inos and \
                self.fault.random() < self.config['p_ino_reuse']:
            mine = [i for i in world.free_inos
                    if world.ino_last_owner.get(i) == inst]
            ino = mine[-1] if mine and self.fault.random() < 0.7 \
                else world.free_inos[-1]
        op = {'op': 'put', 'inst': inst, 'bad': bool(bad)}
        if ino is not None:
            op['ino'] = ino
        return op

    def _inst(self, world, cached=None, running=None):
        names = self.insts
        if cached is True:
            names = [i for i in names if i in world.cache]
        elif cached is False:
            names = [i for i in names if i not in world.cache]
        if running is True:
            names = [i for i in names if ('running', i) in world.links]
        return self.rng.choice(names) if names else None

    # -- single ops
    def next_op(self, world):
        self.points_max = world.cfg_points_max
        if self.queue:
            return self.queue.pop(0)
        rng = self.rng
        if world.mgr is None and rng.random() < 0.6:
            return {'op': 'mgr_restart'}
        if rng.random() < self.config['scenario_p']:
            name = rng.choice(self.config['scenarios'])
            ops = getattr(self, 's_' + name)(world)
            if ops:
                self.queue = ops[1:]
                return ops[0]
        for _ in range(20):
            kind = rngmod.weighted(rng, self.weights)
            op = getattr(self, 'g_' + kind)(world)
            if op is not None:
                return op
        return self._step()

    def g_put(self, world):
        if world.writer_ready:
            inst = self._inst(world, cached=False)
        else:
            inst = self._inst(world)
        return self._put(world, inst) if inst else None

    def g_del(self, world):
        inst = self._inst(world, cached=True)
        return {'op': 'del', 'inst': inst} if inst else None

    def g_ready(self, world):
        return None if world.writer_ready else {'op': 'ready'}

    def g_unready(self, world):
        return {'op': 'unready'} if world.writer_ready else None

    def g_notify(self, _world):
        return {'op': 'notify'}

    def g_advance(self, _world):
        return {'op': 'advance',
                'dt': self.rng.choice([0.001, 0.25, 5.0, 30.0, 600.0])}

    def g_mgr_step(self, world):
        return self._step() if world.mgr is not None else None

    def g_settle(self, world):
        return self._mgr('settle') if world.mgr is not None else None

    def g_mgr_restart(self, _world):
        return {'op': 'mgr_restart'}

    def g_node_restart(self, _world):
        return {'op': 'node_restart'}

    def g_finish(self, world, inst=None):
        if inst is None:
            names = [i for i in self.insts
                     if world.sup.get(world.links.get(('running', i)),
                                      {}).get('alive')]
            if not names:
                return None
            inst = self.rng.choice(names)
        kind = self.rng.choice(['exitinfo', 'exitinfo', 'aborted', 'oom'])
        return {'op': 'finish', 'inst': inst, 'kind': kind,
                'rc': self.rng.choice([0, 1, 137]),
                'sig': self.rng.choice([0, 0, 0, 6, 9])}

    def g_monitor_step(self, world):
        if not any(os.path.exists(p) for p in world.tombstones):
            return None
        return {'op': 'monitor_step'}

    def g_cleanup_step(self, world):
        return {'op': 'cleanup_step'} if world.cl_events else None

    def g_cleanup_invoke(self, world):
        names = sorted(n for n in os.listdir(world.tm_env.cleaning_dir)
                       if not n.startswith('.'))
        if not names:
            return None
        return {'op': 'cleanup_invoke', 'name': self.rng.choice(names)}

    def g_cleanup_restart(self, _world):
        return {'op': 'cleanup_restart'}

    # -- targeted histories (every element is an ordinary recorded op)
    def _running_first(self, world):
        """Ops that bring some instance to 'cached, ready, configured'."""
        ops = []
        inst = self._inst(world, running=True)
        if inst is None:
            inst = self._inst(world, cached=True) or self._inst(world)
            if inst not in world.cache:
                ops.append(self._put(world, inst, bad=False))
        if world.mgr is None:
            ops.append({'op': 'mgr_restart'})
        if not world.writer_ready:
            ops.append({'op': 'ready'})
        elif not world.mgr_ready_evt or world.mgr is None:
            ops.append({'op': 'notify'})
        ops.append(self._mgr('settle'))
        return inst, ops

    def _activate(self):
        return [{'op': self.rng.choice(['notify', 'notify', 'ready'])}]

    def s_regen_restart(self, world):
        # evicted and placed again while generation 1 awaits cleanup, then a
        # manager restart and resynchronisation
        inst, ops = self._running_first(world)
        ops += [{'op': 'del', 'inst': inst}, self._step(5)]
        if self.rng.random() < 0.3:
            ops.append({'op': 'monitor_step'})
        ops += [self._put(world, inst, bad=False), self._mgr('settle'),
                {'op': 'mgr_restart'}]
        ops += self._activate()
        ops.append(self._mgr('settle'))
        return ops

    def s_regen_node_restart(self, world):
        inst, ops = self._running_first(world)
        ops += [{'op': 'del', 'inst': inst}, self._step(5),
                self._put(world, inst, bad=False), self._mgr('settle'),
                {'op': 'node_restart'}]
        if self.rng.random() < 0.4:
            ops.append(self._put(world, inst, bad=False))   # rewrite
        ops += [{'op': 'ready'}, self._mgr('settle')]
        return ops

    def s_batch(self, world):
        # deleted-then-created pair in ONE process_events batch vs. two
        inst, ops = self._running_first(world)
        if self.rng.random() < 0.5:
            ops += [{'op': 'del', 'inst': inst},
                    self._put(world, inst, bad=False), self._step(5)]
        else:
            ops += [{'op': 'del', 'inst': inst}, self._step(1),
                    self._put(world, inst, bad=False), self._step(1)]
        ops.append(self._mgr('settle'))
        return ops

    def s_rewrite(self, world):
        # eventmgr restarts: not ready, stale entries re-written, ready
        inst, ops = self._running_first(world)
        ops.append({'op': 'unready'})
        if self.rng.random() < 0.5:
            ops.append(self._step())
        ops.append(self._put(world, inst, bad=False))
        if self.rng.random() < 0.3:
            ops.append({'op': 'mgr_restart'})
        ops += [{'op': 'ready'}, self._mgr('settle')]
        return ops

    def s_finish_restart(self, world):
        inst, ops = self._running_first(world)
        ops.append(self.g_finish(world, inst))
        if self.rng.random() < 0.5:
            ops.append({'op': 'monitor_step'})
        ops.append({'op': self.rng.choice(['mgr_restart', 'node_restart',
                                           'node_restart'])})
        ops += [{'op': 'ready'}, self._mgr('settle')]
        return ops

    def s_stale(self, world):
        # events queued behind the READY event describe a cache the
        # synchronisation has already seen
        inst, ops = self._running_first(world)
        other = self._inst(world, cached=False)
        ops.append({'op': 'mgr_restart'})
        ops += self._activate()
        if other and self.rng.random() < 0.5:
            ops.append(self._put(world, other))
        ops += [{'op': 'del', 'inst': inst}]
        if self.rng.random() < 0.7:
            ops.append(self._put(world, inst, bad=False))
        ops.append(self._mgr('settle'))
        return ops

    def s_finish_before_stale_created(self, world):
        # the synchronisation configures X, X finishes and is handed to
        # cleanup, then the created event of X (queued behind READY) arrives
        inst = self._inst(world, cached=False)
        if inst is None:
            inst = self._inst(world)
            ops = [{'op': 'del', 'inst': inst}]
        else:
            ops = []
        if world.mgr is None:
            ops.append({'op': 'mgr_restart'})
        ops += [{'op': 'unready'}, self._mgr('settle'), {'op': 'ready'},
                self._put(world, inst, bad=False), self._step(1),
                self.g_finish(world, inst)]
        if self.rng.random() < 0.8:
            ops.append({'op': 'monitor_step'})
        ops.append(self._mgr('settle'))
        return ops

    def s_reboot_race(self, world):
        # reboot (run.sh clears running/ and cleanup/, apps/ stays), then the
        # event manager deletes (or replaces) a cache entry while the
        # synchronisation that re-configures its container is running
        _inst, ops = self._running_first(world)
        ops.append({'op': 'node_restart'})
        ops.append({'op': 'ready'})
        settle = {'op': 'settle', 'order': self._order(),
                  'preempt': [self._preempt(
                      k=self.sched.randint(1, max(1, len(world.cache))),
                      do=None if self.rng.random() < 0.3 else 'del-this')]}
        ops.append(settle)
        return ops

    def s_evict_during_configure(self, world):
        # the master takes the placement away right after making it: the
        # event manager removes (or replaces) the cache entry while the
        # manager is inside configure() for it - on the created event, or in
        # the first synchronisation of a restarted manager
        inst = self._inst(world, cached=False)
        ops = []
        if inst is None:
            inst = self._inst(world)
            ops.append({'op': 'del', 'inst': inst})
        do = 'del-this' if self.rng.random() < 0.8 else None
        if self.rng.random() < 0.6:
            if world.mgr is None:
                ops.append({'op': 'mgr_restart'})
            ops.append({'op': 'ready'} if not world.writer_ready
                       else {'op': 'notify'})
            ops += [{'op': 'settle', 'order': self._order()},
                    self._put(world, inst, bad=False),
                    {'op': 'mgr_step', 'order': self._order(),
                     'max_events': 1,
                     'preempt': [self._preempt_inside(k=1, do=do)]}]
        else:
            ops += [self._put(world, inst, bad=False), {'op': 'mgr_restart'},
                    {'op': 'ready'} if not world.writer_ready
                    else {'op': 'notify'},
                    {'op': 'settle', 'order': self._order(),
                     'preempt': [self._preempt_inside(
                         k=self.sched.randint(1, max(1, len(world.cache) + 1)),
                         do=do)]}]
        ops.append({'op': 'settle', 'order': self._order()})
        return ops

    def s_between(self, world):
        # an event for X between the delete and the create of Y
        inst, ops = self._running_first(world)
        other = self._inst(world)
        ops.append({'op': 'del', 'inst': inst})
        if other and other != inst:
            if other in world.cache:
                ops.append({'op': 'del', 'inst': other})
            else:
                ops.append(self._put(world, other))
        ops.append(self._put(world, inst, bad=False))
        ops += [self._step(), self._step(), self._mgr('settle')]
        return ops

    def s_double_terminate(self, world):
        # generation 1 and generation 2 both terminated while the cleanup of
        # generation 1 is still pending
        inst, ops = self._running_first(world)
        ops += [{'op': 'del', 'inst': inst}, self._step(5),
                self._put(world, inst, bad=False), self._mgr('settle'),
                {'op': 'del', 'inst': inst}, self._mgr('settle')]
        if self.rng.random() < 0.5:
            ops += [self._put(world, inst, bad=False), self._mgr('settle')]
        ops += [{'op': 'cleanup_step'}, {'op': 'cleanup_step'}]
        return ops

    def tail(self, world):
        ops = []
        if world.mgr is None:
            ops.append({'op': 'mgr_restart'})
        ops.append({'op': 'ready'} if not world.writer_ready
                   else {'op': 'notify'})
        ops.append({'op': 'settle', 'order': self._order()})
        return ops


def make_config(prop, tier, rng):
    # pylint: disable=unused-argument
    big = tier == 'thorough'
    wmul = {}
    for key, _w in OP_WEIGHTS:
        wmul[key] = rng.choice([0.0, 0.5, 1.0, 1.0, 2.0]) \
            if key not in ('put', 'mgr_step', 'settle') \
            else rng.choice([0.7, 1.0, 1.5])
    nscen = rng.randint(1, len(SCENARIOS))
    return {
        'start': 1700000000.0 + rng.randint(0, 7 * 86400),
        'n_ops': rng.randint(20, 160 if big else 80),
        'n_inst': rng.choice([1, 2, 2, 3, 4]),
        'wmul': wmul,
        'scenario_p': rng.choice([0.0, 0.05, 0.1, 0.2]),
        'scenarios': sorted(rng.sample(SCENARIOS, nscen)),
        'p_fail': rng.choice([0.0, 0.0, 0.05, 0.15]),
        'p_bad': rng.choice([0.0, 0.05, 0.15]),
        'p_ino_reuse': rng.choice([0.0, 0.3, 0.8]),
        'nuke_tombstones': rng.random() < 0.6,
        'p_preempt': rng.choice([0.0, 0.05, 0.15]),
        # replacement (delete + create of the same instance) inside one
        # synchronisation
        'preempt_replace': bool(rng.random() < 0.5),
        # the event manager acts between two file-system calls of a running
        # configure()
        'p_preempt_inside': rng.choice([0.0, 0.05, 0.15, 0.3]),
    }


# ---------------------------------------------------------------------------

_CURRENT = [None]
_REAL_SYNC = appcfgmgr.AppCfgMgr._synchronize
_REAL_FIRST_SYNC = appcfgmgr.AppCfgMgr._first_sync
_REAL_TERMINATE = appcfgmgr.AppCfgMgr._terminate
_REAL_CONFIGURE = appcfgmgr.AppCfgMgr._configure
_REAL_REPLACE = fs.replace
_REAL_SYMLINK_SAFE = fs.symlink_safe


class NodeSim(enginemod.Engine):
    name = 'nodesim'
    serves = ('C13',)
    real_components = (
        'treadmill.appcfgmgr.AppCfgMgr: _on_created, _on_modified, '
        '_on_deleted, _first_sync, _synchronize, _configure, _terminate, '
        '_refresh_supervisor (real, unmodified; run() itself is not executed: '
        'its loop body `wait_for_events / process_events(max_events)` is '
        'invoked by the scheduler)',
        'treadmill.dirwatch.DirWatcher on cache/ (real kernel inotify, real '
        'event translation and dispatch)',
        'treadmill.appcfg.configure.configure, appcfg.manifest.load, '
        'appcfg.gen_uniqueid / eventfile_unique_name / app_name, '
        'supervisor.create_service / open_service (real s6 service '
        'directories, app.json, manifest.yml), trace.post',
        'treadmill.monitor.MonitorContainerDown.execute, '
        'MonitorContainerCleanup.execute, Monitor._on_created (tombstone '
        'name parsing), appcfg.abort.abort / flag_aborted / report_aborted',
        'treadmill.cleanup.Cleanup: _add_cleanup_app, _remove_cleanup_app, '
        '_sync, invoke; runtime_base.RuntimeBase.finish (rmtree of the '
        'container)',
        'treadmill.eventmgr.EventMgr._cache_notify (READY marker), '
        'treadmill.fs.write_safe / symlink_safe / replace / rm_safe',
        'file system: a private tmpfs directory, real rename/symlink '
        'semantics',
    )
    stub_components = (
        'clock (virtual, strictly increasing)',
        'cache writer: the harness writes/unlinks cache/<instance> with the '
        'calls EventMgr._cache/_synchronize make (no ZooKeeper); an existing '
        'entry is only re-written while the READY marker is absent, as '
        'EventMgr does',
        'os.stat as seen by treadmill.appcfg: st_ino from a harness inode '
        'table with recorded reuse (every hard link of the entry shares it), '
        'st_ctime = simulated time of the last change of the inode - the '
        'write, and every later change the kernel reports for the real file '
        '(link/unlink of another name, chmod, chown, rename, write)',
        'glob.glob as seen by treadmill.appcfgmgr / treadmill.cleanup '
        '(sorted, then permuted by the op\'s recorded `order`)',
        'tempfile as seen by treadmill.fs (names from a counter)',
        'jinja2.Environment as seen by treadmill.templates is memoised '
        '(templates compiled once per process; output unchanged)',
        's6 supervision tree: supervisor.control_svscan / control_service / '
        'ensure_not_supervised are a model - `-a` starts supervising every '
        'container linked in running/, `-n` kills the supervised ones that '
        'are no longer linked, a container whose process dies has its '
        'finish script write tombstones/running/<instance>,<ts>,<rc>,<sig> '
        '(config nuke_tombstones switches the tombstone of nuked containers '
        'off in ~40% of the runs)',
        'Monitor loop: tombstones are handed to the real actions in creation '
        'order at a scheduler-chosen step (no inotify instance)',
        'Cleanup watcher: created/deleted events are synthesised from the '
        'difference of cleanup/ across handler calls, FIFO, one per step; the '
        'cleanup app (`sproc cleanup instance`) is a direct call of the real '
        'Cleanup.invoke for a name that has a cleaning/ link',
        'container runtime: get_runtime returns a RuntimeBase subclass whose '
        '_finish() releases nothing (network etc. is netsim\'s subject)',
        'configure() faults: ContainerSetupError / RuntimeError raised before '
        'or after the real configure() on a recorded decision; a "bad" '
        'manifest (invalid environment) makes the real configure() raise',
        'plugin_manager.load from entry_points.txt, subproc aliases -> '
        '/bin/true, context.GLOBAL cell/zk.url/ldap_suffix/dns_domain set',
    )

    def rule(self, prop):
        return ('seeded op mix per run (swarm weights) plus targeted '
                'multi-op histories (evict-and-replace while generation 1 '
                'awaits cleanup then restart; delete+create in one batch or '
                'two; re-write while not ready; finish then restart; events '
                'queued behind the READY event; node restart; cache entry '
                'deleted/replaced between two file-system calls of the '
                'configure() working on it) over <= 4 '
                'instance names; every scheduling, ordering, inode and fault '
                'decision is in the recorded op; invariants after every '
                'handler call, the synchronisation clauses after every '
                '_synchronize and whenever the active manager has no event '
                'left; a run is distinct by the fingerprint of its op list; '
                'non-trivial: a run in which a manager restart or a '
                'synchronisation happened while at least one container was '
                'linked in cleanup/ and one in running/')

    def assumptions(self, prop):
        return [
            'one handler invocation at a time: interleavings inside a '
            'handler (and process death inside one) are not explored',
            'the cache writer obeys the EventMgr protocol (re-writes of an '
            'existing entry only while the READY marker is absent)',
            'an instance whose current generation has ever finished '
            '(exitinfo/aborted/oom) may or may not be linked in running/; '
            'only the creation of a running link onto a container holding '
            'such a file is forbidden',
            'the event manager acts inside a manager handler only at the '
            'entry of configure() and right before one of the file-system '
            'calls the running configure() makes (manifest open, stat, '
            'fs.mkdir_safe, every io.open of the s6 service directory, '
            'shutil.copyfile/rmtree, fs.write_safe: ~17 points per call, '
            'recorded as {k, at, do}): delete, delete + re-create, or '
            'creation of any entry; nowhere else inside a handler; an '
            'instance whose entry changed inside a synchronisation is judged '
            'when its events are processed, not at the end of that '
            'synchronisation',
            'a directory that appears in apps/ during a configure() call '
            'that returns None or raises belongs to the entry that call was '
            'given; when the active manager has no event left it must be '
            'linked in cleanup/ or be gone unless that entry is still cached',
            'unique-id collisions caused by the 77-bit truncation of '
            '(ctime, inode) are not searched for adversarially (ctime comes '
            'from the virtual clock, >= 1 ms per op)',
            'PYTHONHASHSEED of the worker is part of the seed (the set '
            'iteration order in _synchronize)',
            'only the first violation of a run is reported',
        ]

    def quick_runs(self, prop):
        # ~15 s on 16 cores; every unlisted signature adds ~2.5 s (minimise,
        # fresh-interpreter replay)
        return 1600

    def make_config(self, prop, tier, rng):
        return make_config(prop, tier, rng)

    # -- seams ------------------------------------------------------------------
    @staticmethod
    def _install(patches, world, seam):
        patches.set(plugin_manager, 'load', _ENTRY_POINTS.load)
        patches.set(plugin_manager, 'names', _ENTRY_POINTS.names)
        patches.set(subproc, '_EXECUTABLES', _Aliases())
        patches.set(templates, 'jinja2', _JINJA)
        patches.set(utils, 'sys_exit', _sys_exit)
        patches.set(fs, 'tempfile', _DetTempfile())
        patches.set(fs, 'replace', world.fs_replace)
        patches.set(fs, 'symlink_safe', world.fs_symlink_safe)
        patches.set(appcfg, 'os', _AppcfgOS(world))
        # pre-emption points inside a running configure(): the file-system
        # calls it makes (manifest read, stat, mkdir, every file of the s6
        # service directory, the manifest copy, app.json, the trace event)
        patches.set(fs, 'mkdir_safe', _pointed(world, fs.mkdir_safe, 'mkdir'))
        patches.set(fs, 'write_safe', _pointed(world, fs.write_safe,
                                               'write_safe'))
        patches.set(app_manifest, 'io',
                    _PointModule(world, io, ('open',)))
        patches.set(supervisor_utils, 'io',
                    _PointModule(world, io, ('open',)))
        patches.set(real_app_cfg, 'shutil',
                    _PointModule(world, real_app_cfg.shutil,
                                 ('copyfile', 'rmtree')))
        patches.set(appcfgmgr, 'glob', fsseam.SeamGlob(seam))
        patches.set(cleanupmod, 'glob', fsseam.SeamGlob(seam))
        patches.set(appcfgmgr, 'app_cfg', _CfgSeam(world))
        patches.set(supervisor, 'control_svscan', world.control_svscan)
        patches.set(supervisor, 'control_service', world.control_service)
        patches.set(supervisor, 'ensure_not_supervised',
                    world.ensure_not_supervised)
        patches.set(app_runtime, 'get_runtime', _get_runtime)
        patches.set(appcfgmgr.AppCfgMgr, '_synchronize', _hooked_sync)
        patches.set(appcfgmgr.AppCfgMgr, '_first_sync', _hooked_first_sync)
        patches.set(appcfgmgr.AppCfgMgr, '_terminate', _hooked_terminate)
        patches.set(appcfgmgr.AppCfgMgr, '_configure', _hooked_configure)

    def execute(self, prop, config, seed, ops=None, keep_log=False):
        simkit.quiet_logging()
        context.GLOBAL.cell = 'simcell'
        context.GLOBAL.zk.url = 'zookeeper://sim@localhost:2181/sim'
        context.GLOBAL.ldap_suffix = 'dc=sim'
        context.GLOBAL.dns_domain = 'sim.example.com'
        res = enginemod.Result()
        log = logmod.EventLog(keep=keep_log)
        log.ev('seed', seed, prop)
        seam = fsseam.Seam()
        patches = fsseam.Patches()
        clock = clockmod.Clock(config['start'])
        root = fsseam.make_scratch()
        world = None
        clock.install()
        try:
            # environment shims first: World() resolves the tombstone plugins
            patches.set(plugin_manager, 'load', _ENTRY_POINTS.load)
            world = World(config, clock, log, root, seam)
            _CURRENT[0] = world
            self._install(patches, world, seam)
            world.links = world._read_links()
            world._new_manager()
            t_begin = clock.peek()
            executed = []
            if ops is None:
                gen = Generator(config, rngmod.Streams(seed))
                source = None
            else:
                gen = None
                source = iter(ops)
            n = 0
            while world.violation is None:
                if gen is not None:
                    if n >= config['n_ops']:
                        break
                    op = gen.next_op(world)
                else:
                    op = next(source, None)
                    if op is None:
                        break
                n += 1
                self._run_op(world, log, executed, op, n)
            if gen is not None:
                for _ in range(4):
                    if world.violation is not None:
                        break
                    tail = gen.tail(world)
                    for op in tail:
                        if world.violation is not None:
                            break
                        n += 1
                        self._run_op(world, log, executed, op, n)
                    if world.mgr is not None:
                        break
            res.ops = executed
            res.violation = world.violation
            res.steps = n
            res.sim_s = clock.peek() - t_begin
            res.faults = world.faults
            res.probes = world.probes
            res.extra = {
                'unique_name_collisions': world.unique_name_collisions,
                'manager_died_in_handler': world.mgr_died,
                'cache_inode_changes': world.cache_inode_changes,
                'preempted_replace': world.preempted_replace,
                'configure_points_max': world.cfg_points_max,
                'half_configured_left': world.half_configured_left}
            res.fps = world.fps
            res.nontrivial = world.nontrivial
            res.trace_fp = logmod.fingerprint(executed)
            if world.violation is not None:
                log.ev('violation', world.violation['sig'])
            res.digest = log.digest()
            res.log_lines = log.lines if keep_log else None
        finally:
            _CURRENT[0] = None
            patches.undo()
            clock.uninstall()
            if world is not None:
                world.close()
            fsseam.remove_scratch(root)
        return res

    @staticmethod
    def _run_op(world, log, executed, op, n):
        world.step = n
        executed.append(op)
        log.ev('op', op)
        world.apply(op)


def _sys_exit(code=0):
    raise SimProcessExit(code)


def _get_runtime(runtime_name, tm_env, container_dir, param=None):
    # pylint: disable=unused-argument
    return _SimRuntime(tm_env, container_dir, param)


def _hooked_sync(mgr):
    world = _CURRENT[0]
    unchanged = world.pre_sync()
    world.in_sync += 1
    try:
        ret = _REAL_SYNC(mgr)
    finally:
        world.in_sync -= 1
    world.post_sync(unchanged)
    return ret


def _hooked_first_sync(mgr):
    world = _CURRENT[0]
    if mgr._is_active is not True:       # pylint: disable=protected-access
        world.probes['first_syncs'] += 1
    return _REAL_FIRST_SYNC(mgr)


def _hooked_configure(mgr, instance_name):
    world = _CURRENT[0]
    ent = world.cache.get(instance_name)
    gen = ent['gen'] if ent is not None else None
    world.in_configure += 1
    try:
        done = _REAL_CONFIGURE(mgr, instance_name)
    finally:
        world.in_configure -= 1
    if not done:
        for cname in sorted(world.containers):
            rec = world.containers[cname]
            if rec['inst'] == instance_name and rec['gen'] == gen and \
                    not rec['had_running']:
                rec['failed'] = True
        for cname in sorted(world.partial):
            rec = world.partial[cname]
            if rec['inst'] == instance_name and rec['gen'] == gen:
                rec['failed'] = True
        world.log.ev('configure-failed', instance_name)
    return done


def _hooked_terminate(mgr, instance_name):
    world = _CURRENT[0]
    world.probes['terminates'] += 1
    world.log.ev('terminate', instance_name)
    world.in_terminate += 1
    try:
        return _REAL_TERMINATE(mgr, instance_name)
    finally:
        world.in_terminate -= 1


ENGINE = NodeSim()
