"""tracesim: the trace archiver (cron `treadmill sproc trace cleanup`) over a
simulated ZooKeeper, with a crash at every ZooKeeper write (C18).

Real: treadmill.trace._zk (upload_batch, download_batch, cleanup),
treadmill.trace.app.zk (publish, _unschedule, prune_trace_evictions,
prune_trace_service_events, cleanup_trace, cleanup_finished,
cleanup_trace_history, cleanup_finished_history, list_traces),
treadmill.trace.server.zk (publish, cleanup_server_trace,
cleanup_server_trace_history), treadmill.zkutils (create, put, ensure_deleted,
with_retry), kazoo.retry.KazooRetry, sqlite3, zlib, tempfile (on /dev/shm).
Simulated: ZooKeeper (simkit.zk), clock; KazooRetry sleeps on the virtual
clock without jitter; the `while True: ...; time.sleep(interval)` loop and
the election lock of sproc/trace.py are replaced by one pass of the loop body
per `archive` op (calling sequence and argument wiring copied from
treadmill/sproc/trace.py:97-134).

The world does not hold still during a pass: before every ZooKeeper call of
the archiver (simkit.zk call_hook) the virtual clock may advance (every call
costs time, some a lot) and the master / the nodes may act (instances are
scheduled, their events published, short jobs finish) - all of it written
in the `world` entry of the archive op (World._world_hook); the oracle
judges every event at the moment it was deleted from /trace.
"""

import os
import shutil
import tempfile
import time

import kazoo.exceptions as kexc
import kazoo.retry as kretry

import simkit
from simkit import SimCrash, HarnessError
from simkit import clock as clockmod
from simkit import engine as enginemod
from simkit import log as logmod
from simkit import rng as rngmod
from simkit import zk as zkmod

from treadmill import zknamespace as z
from treadmill import zkutils
from treadmill.trace import _zk as tracezk
from treadmill.trace.app import zk as app_zk
from treadmill.trace.server import zk as server_zk

from oracles import tracecheck as oracle

_SCRATCH_N = [0]

ARCHIVE_DEFAULTS = {'trace_batch': 5, 'finished_batch': 5, 'expiry_t': 300,
                    'expiry_f': 300, 'max_t': 3, 'max_f': 3, 'evict_max': 10,
                    'svc_max': 10}


_REAL_RETRY = kretry.KazooRetry


class _DetRetry(_REAL_RETRY):
    """KazooRetry binds the real time.sleep as a default argument at import
    time; sleep on whatever time.sleep is now (the virtual clock)."""

    def __init__(self, *args, **kwargs):
        kwargs.setdefault('sleep_func', lambda s: time.sleep(s))
        _REAL_RETRY.__init__(self, *args, **kwargs)


class _NoJitter:
    @staticmethod
    def uniform(_lo, _hi):
        return 1.0


DELETE_ERRORS = {'NoAuthError': kexc.NoAuthError,
                 'NotEmptyError': kexc.NotEmptyError}


class ArchiverFaults:
    """ZooKeeper faults of the archiver's session that simkit.zk's one-shot
    fault_plan does not offer, installed on the client *instance* (the code
    under test calls zkclient.delete / create, which reach _mutating):

    delete_error  the delete that is the k-th mutating call of the session
                  raises NoAuthError / NotEmptyError, and so does every later
                  delete of that path by this session (a node the archiver
                  may not delete: foreign ACL, child appeared); nothing is
                  applied
    conn_outage   mutating calls k .. k+count-1 all raise ConnectionLoss
                  (the first one applied or not, the others not applied): an
                  outage that outlives KazooRetry(max_tries=5) when count>=5

    It also records which mutating calls of the session are deletes (the
    enumeration in execute() picks its points from the fault-free pass).
    """

    def __init__(self, client, fault):
        self.client = client
        self.fault = fault if fault and fault.get('kind') in (
            'delete_error', 'conn_outage') else None
        self.delete_points = []
        self.bad_paths = set()
        self.fired = 0
        self.create_points = []
        self._real_delete = client.delete
        self._real_create = client.create
        self._real_mutating = client._mutating
        client.delete = self.delete
        client.create = self.create
        if self.fault and self.fault['kind'] == 'conn_outage':
            client._mutating = self.mutating

    def create(self, path, *args, **kwargs):
        self.create_points.append(self.client.nwrites + 1)
        return self._real_create(path, *args, **kwargs)

    def delete(self, path, version=-1, recursive=False):
        client = self.client
        k = client.nwrites + 1
        self.delete_points.append(k)
        fault = self.fault
        if fault and fault['kind'] == 'delete_error':
            npath = zkmod._norm(path)
            if npath in self.bad_paths or (
                    not self.bad_paths and k == int(fault['at']) and
                    npath in client._server.nodes):
                client._check()
                self.bad_paths.add(npath)
                self.fired += 1
                raise DELETE_ERRORS.get(fault.get('error'),
                                        kexc.NoAuthError)()
        return self._real_delete(path, version=version, recursive=recursive)

    def mutating(self, apply):
        client = self.client
        fault = self.fault
        first = int(fault['at'])
        k = client.nwrites + 1
        if first <= k < first + int(fault.get('count', 5)):
            client._check()
            client.nwrites = k
            self.fired += 1
            if k == first and fault.get('applied'):
                try:
                    apply()
                except kexc.KazooException:
                    pass
            raise kexc.ConnectionLoss()
        return self._real_mutating(apply)


class Api:
    """The repository's own readers (second view of the oracle)."""

    _cache = {}

    def __init__(self, world):
        self.world = world
        self.client = world.zk.connect('reader')
        self._listed = {}

    def download(self, kind, snap, data, name):
        key = (kind, data, name)
        hit = Api._cache.get(key)
        if hit is None:
            hit = frozenset(tracezk.download_batch(
                self.client, oracle.HIST[kind] + '/' + snap,
                oracle.TABLE[kind], name=name))
            if len(Api._cache) > 20000:
                Api._cache.clear()
            Api._cache[key] = hit
        self.world.probes['api_download_checks'] += 1
        return hit

    def list_finished(self):
        zk = self.world.zk

        def cversion(path):
            node = zk.nodes.get(path)
            return node.cversion if node is not None else None
        key = (tuple((n, zk.nodes[z.FINISHED_HISTORY + '/' + n].czxid)
                     for n in zk.children(z.FINISHED_HISTORY) or []),
               cversion(z.SCHEDULED), cversion(z.FINISHED))
        hit = self._listed.get(key)
        if hit is None:
            hit = tuple(app_zk.list_traces(self.client, '*'))
            self._listed = {key: hit}
        self.world.probes['api_list_checks'] += 1
        return hit


class World:
    def __init__(self, config, clock, log, resume=None):
        self.config = config
        self.clock = clock
        self.log = log
        self.zk = zkmod.SimZk(clock, log) if resume is None \
            else resume['zk'].clone_tree(clock)
        self.zk.order_seed = config.get('child_order')
        if resume is not None:
            # same session ids as in plain re-execution (the order in which
            # children are returned is a function of the session id)
            self.zk.next_sid = resume['first_sid']
        self.first_sid = self.zk.next_sid
        self.admin = self.zk.connect('admin')
        self.node = self.zk.connect('node')
        self.api = Api(self)
        if resume is not None:
            self.zk.next_sid = resume['next_sid']
        self.violation = None
        self.step = 0
        self.fps = []
        self.ar = None                 # oracle state of the latest archive op
        self.archives = 0
        self.last_archive_writes = 0
        self.last_delete_points = []
        self.last_create_points = []
        self.last_outcome = None
        self.last_phase = None
        self.last_stats = None
        self.probes = {
            'archive_runs': 0, 'archive_complete': 0, 'crash_variants': 0,
            'crash_inside_upload_delete_window': 0, 'snapshots_created': 0,
            'events_archived': 0, 'finished_archived': 0,
            'server_events_archived': 0, 'events_kept_young': 0,
            'events_kept_scheduled': 0, 'history_pruned': 0,
            'policy_pruned_events': 0, 'conn_loss_fired': 0,
            'conn_loss_retried_ok': 0, 'archiver_died_conn_loss': 0,
            'delete_error_fired': 0,
            'conn_outage_fired': 0, 'conn_outage_survived': 0,
            'retry_exhausted': 0, 'delete_fault_after_partial_delete': 0,
            'recoveries': 0,
            'api_download_checks': 0, 'api_list_checks': 0,
            'oracle_evaluations': 0}
        self.faults = {'crash': 0, 'conn_loss': 0, 'delete_error': 0,
                       'conn_outage': 0, 'world_interleave': 0,
                       'slow_call': 0}
        self.crash_phase = {}
        if resume is None:
            self._setup_static()
        else:
            self.archives = resume['archives']
            self.last_archive_writes = resume['last_archive_writes']
            self.last_outcome = resume['last_outcome']
            self.probes = dict(resume['probes'])
            self.faults = dict(resume['faults'])
            self.fps = list(resume['fps'])
            self.crash_phase = dict(resume['crash_phase'])

    def checkpoint(self, executed, t_begin):
        """The state after a fault-free prefix, to resume variants from (an
        optimisation of generation mode only; execute() cross-checks it
        against plain re-execution)."""
        log = self.log
        return {'zk': self.zk.clone_tree(), 'us': self.clock.us,
                'first_sid': self.first_sid, 'next_sid': self.zk.next_sid,
                'hash': log._h.copy(), 'lines': list(log.lines),
                'count': log.count, 'ops': list(executed),
                't_begin': t_begin, 'archives': self.archives,
                'last_archive_writes': self.last_archive_writes,
                'last_outcome': self.last_outcome,
                'probes': dict(self.probes), 'faults': dict(self.faults),
                'fps': list(self.fps), 'crash_phase': dict(self.crash_phase)}

    def fail(self, viol):
        if self.violation is None and viol is not None:
            self.violation = dict(viol, step=self.step)

    def _setup_static(self):
        """Root nodes and shards Master.create_rootns makes (a subset of the
        256+256 shards: the ones the configuration uses plus empty ones)."""
        adm = self.admin
        for path in (z.SCHEDULED, z.PLACEMENT, z.FINISHED, z.FINISHED_HISTORY,
                     z.TRACE, z.TRACE_HISTORY, z.SERVER_TRACE,
                     z.SERVER_TRACE_HISTORY):
            adm.ensure_path(path)
        for shard in self.config['shards']:
            adm.ensure_path(z.path.trace_shard('%04X' % shard))
        for shard in self.config['server_shards']:
            adm.ensure_path(z.path.server_trace_shard('%04X' % shard))

    # ------------------------------------------------------------------
    def apply(self, op):
        fn = getattr(self, 'op_' + op['op'], None)
        if fn is not None:
            fn(op)

    def op_advance(self, op):
        self.clock.advance(op['dt'])

    def _populate(self, what, fn):
        """A call into repo code that builds the population (publish,
        zkutils).  It is not the archiver: a failure here is not what C18
        forbids - the node is simply not there - but it is recorded (log,
        probe `populate_raised:<what>`), never swallowed silently and never
        a harness error."""
        try:
            fn()
        except SimCrash:
            raise
        except Exception as err:  # pylint: disable=broad-except
            key = 'populate_raised:' + what
            self.probes[key] = self.probes.get(key, 0) + 1
            self.log.ev('populate-raised', what, repr(err))

    def op_schedule(self, op):
        """What the master does: /scheduled/<inst> and a placement."""
        self._populate('schedule', lambda: (
            zkutils.put(self.admin, z.path.scheduled(op['inst']),
                        {'memory': '100M', 'cpu': '10%', 'disk': '100M'}),
            zkutils.put(self.admin, z.path.placement(op['host'], op['inst']),
                        {'expires': 0, 'identity': None})))

    def op_unplace(self, op):
        """The instance was moved away from `host` (its later terminal event
        from that host is stale: real publish leaves /scheduled alone)."""
        self._populate('unplace', lambda: zkutils.ensure_deleted(
            self.admin, z.path.placement(op['host'], op['inst'])))

    def op_unschedule(self, op):
        """The instance was deleted by its owner (masterapi.delete_apps)."""
        self._populate('unschedule', lambda: zkutils.ensure_deleted(
            self.admin, z.path.scheduled(op['inst'])))

    def op_event(self, op):
        """`when`: the timestamp the publishing node put into the event; or
        `age`: published now by a node whose clock read `age` seconds ago
        (events published while the archiver runs: the instant is decided
        by the interleaving, not by the generator)."""
        when = op.get('when')
        if when is None:
            when = _stamp(self.clock.peek() - float(op.get('age', 0.0)))
        saved = app_zk._HOSTNAME
        app_zk._HOSTNAME = op['host']
        try:
            self._populate('publish', lambda: app_zk.publish(
                self.node, when, op['inst'], op['type'], op['data'],
                op.get('payload')))
        finally:
            app_zk._HOSTNAME = saved

    def op_srv_event(self, op):
        saved = server_zk._HOSTNAME
        server_zk._HOSTNAME = op['host']
        try:
            self._populate('server-publish', lambda: server_zk.publish(
                self.node, op['when'], op['server'], op['type'], op['data'],
                None))
        finally:
            server_zk._HOSTNAME = saved

    def op_bulk(self, op):
        """`count` archivable records at once, written straight into the
        tree (what thousands of publish calls would leave behind; ONE op so
        that replays stay small and the count can be shrunk).
        trace:    events `<inst>,<ts - i*step>,<host>,configured,u<i>` of
                  `ninst` instances that are neither scheduled nor finished
        server:   events `<server>,<ts - i*step>,<server>,server_state,up`
        finished: /finished/<inst> records (mtime = now)"""
        kind = op.get('kind')
        count = max(0, int(op.get('count', 0)))
        zk = self.zk
        sid = self.admin.client_id[0]
        ninst = max(1, int(op.get('ninst', 1)))
        base = float(op.get('ts', 0.0))
        step = float(op.get('step', 0.001))
        id0 = int(op.get('id0', 1000000))
        if kind == 'finished':
            self.admin.ensure_path(z.FINISHED)
            for i in range(count):
                path = z.path.finished('bulk.fin#%010d' % (id0 + i))
                if path not in zk.nodes:
                    zk._create_node(
                        path, b'{"data": "0.0", "host": "bulk.sim", '
                        b'"state": "finished", "when": "0"}', sid, False)
        elif kind in ('trace', 'server'):
            parents = []
            for j in range(ninst):
                if kind == 'trace':
                    name = 'bulk.app#%010d' % (id0 + 256 * j)
                    parent = z.path.trace(name)
                else:
                    name = 'bulk%d.sim' % j
                    parent = z.path.server_trace(name)
                self.admin.ensure_path(parent)
                parents.append((name, parent))
            tail = 'bulk.sim,configured,u%06d' if kind == 'trace' \
                else 'bulk.sim,server_state,up%d'
            for i in range(count):
                name, parent = parents[i % ninst]
                node = '%s,%s,%s' % (name, _stamp(base - i * step), tail % i)
                path = parent + '/' + node
                if path not in zk.nodes:
                    zk._create_node(path, b'', sid, False)
        self.probes['bulk_records'] = self.probes.get('bulk_records', 0) + \
            count

    # ------------------------------------------------------------------
    def _call(self, phase, client, par):
        """One statement of the loop body of sproc/trace.py cleanup()."""
        if phase == 'prune_trace_evictions':
            app_zk.prune_trace_evictions(client, par['evict_max'])
        elif phase == 'prune_trace_service_events':
            app_zk.prune_trace_service_events(client, par['svc_max'])
        elif phase == 'cleanup_trace':
            app_zk.cleanup_trace(client, par['trace_batch'], par['expiry_t'])
        elif phase == 'cleanup_finished':
            app_zk.cleanup_finished(client, par['finished_batch'],
                                    par['expiry_f'])
        elif phase == 'cleanup_trace_history':
            app_zk.cleanup_trace_history(client, par['max_t'])
        elif phase == 'cleanup_finished_history':
            app_zk.cleanup_finished_history(client, par['max_f'])
        elif phase == 'cleanup_server_trace':
            server_zk.cleanup_server_trace(client, par['trace_batch'])
        elif phase == 'cleanup_server_trace_history':
            server_zk.cleanup_server_trace_history(client, par['max_t'])

    WORLD_ACTS = ('schedule', 'unschedule', 'unplace', 'event')

    def _world_hook(self, plan, state):
        """The pre-emption point before every ZooKeeper call of the archiver
        (simkit.zk call_hook): the rest of the cell goes on while a pass
        runs.  `plan` (the `world` entry of the archive op, all of it
        recorded, nothing decided here):
          write_cost, read_cost
                  virtual seconds every mutating / every reading ZooKeeper
                  call of the pass takes (a write goes through the quorum,
                  a read is answered by the server the session is on)
          points  [{'phase': p, 'call': k, 'dt': s, 'acts': [op, ...]}]:
                  before the k-th ZooKeeper call the archiver makes in
                  phase p, `s` more seconds pass (a slow ensemble) and the
                  master / the nodes do `acts` (schedule, event with a
                  relative `age`, unschedule, unplace ops); a point the pass
                  never reaches does nothing
        Always installed: it notes the time of every call for the oracle."""
        plan = plan or {}
        wcost = max(0.0, float(plan.get('write_cost', 0.0)))
        rcost = max(0.0, float(plan.get('read_cost', 0.0)))
        points = {}
        for point in plan.get('points') or ():
            key = (point.get('phase'), int(point.get('call', 0)))
            points.setdefault(key, []).append(point)
        count = {}
        clock = self.clock
        zk = self.zk

        def hook(path):
            phase = state.phase
            k = count[phase] = count.get(phase, 0) + 1
            # the call is issued now; what it costs and what the world does
            # meanwhile comes before it is applied
            state.note_call(zk, clock.peek())
            # (simkit.zk names the path of a read; a mutating call passes
            # none)
            cost = wcost if path is None else rcost
            if cost:
                clock.advance(cost)
            for point in points.pop((phase, k), ()):
                dt = max(0.0, float(point.get('dt', 0.0)))
                acts = [act for act in point.get('acts') or ()
                        if act.get('op') in self.WORLD_ACTS]
                if dt:
                    clock.advance(dt)
                    self.faults['slow_call'] += 1
                self.log.ev('world', phase, k, dt, len(acts))
                if not acts:
                    continue
                self.faults['world_interleave'] += 1
                for act in acts:
                    self.log.ev('act', act)
                    self.apply(act)
                    key = 'midpass_' + act['op']
                    self.probes[key] = self.probes.get(key, 0) + 1
        return hook

    def op_archive(self, op):
        """One pass of the cron's loop body in a fresh process (session)."""
        par = dict(ARCHIVE_DEFAULTS)
        par.update((k, op[k]) for k in ARCHIVE_DEFAULTS if k in op)
        self.archives += 1
        self.probes['archive_runs'] += 1
        client = self.zk.connect('archiver%d' % self.archives)
        state = oracle.ArchiveState(self.zk, par, self.clock.peek())
        self.ar = state
        fault = op.get('fault')
        if fault and fault.get('kind') in ('crash', 'conn_loss'):
            client.fault_plan = {'at': int(fault['at']),
                                 'kind': fault['kind'],
                                 'applied': bool(fault.get('applied'))}
        injector = ArchiverFaults(client, fault)
        client.call_hook = self._world_hook(op.get('world'), state)
        outcome = 'complete'
        err_text = None
        try:
            for phase in oracle.PHASES:
                state.begin_phase(phase, self.zk, self.clock.peek())
                try:
                    self._call(phase, client, par)
                except SimCrash:
                    outcome = 'crash'
                except kexc.KazooException as err:
                    # the cron has no handler: the process dies, the
                    # supervisor restarts it
                    outcome = 'died'
                    err_text = repr(err)
                except Exception as err:  # pylint: disable=broad-except
                    # the archiver stopped by itself: allowed by the
                    # statement ("if the archiver stops at any point"),
                    # counted and reported as a probe
                    outcome = 'raised'
                    err_text = repr(err)
                state.end_phase(phase, self.zk, self.clock.peek(),
                                outcome == 'complete')
                if outcome != 'complete':
                    break
                self.evaluate()
                if self.violation is not None:
                    break
        finally:
            client.fault_plan = None
            client.call_hook = None
        fired = list(client.fired)
        if injector.fired:
            kind = injector.fault['kind']
            fired.append({'kind': kind})
            self.probes[kind + '_fired'] += 1
            if outcome == 'complete' and kind == 'conn_outage':
                self.probes['conn_outage_survived'] += 1
            if err_text and 'RetryFailedError' in err_text:
                self.probes['retry_exhausted'] += 1
        self.last_delete_points = injector.delete_points
        self.last_create_points = injector.create_points
        self.last_archive_writes = client.nwrites
        self.last_outcome = outcome
        self.last_phase = state.phase
        state.outcome = outcome
        for plan in fired:
            self.faults[plan['kind']] = self.faults.get(plan['kind'], 0) + 1
        if any(p['kind'] == 'conn_loss' for p in fired):
            self.probes['conn_loss_fired'] += 1
            if outcome == 'complete':
                self.probes['conn_loss_retried_ok'] += 1
            elif outcome == 'died':
                self.probes['archiver_died_conn_loss'] += 1
        if outcome == 'raised' or (outcome == 'died' and not fired):
            # present only if it happened: zero is the expected value
            self.probes['archiver_raised_unexpected'] = \
                self.probes.get('archiver_raised_unexpected', 0) + 1
        if outcome == 'complete':
            self.probes['archive_complete'] += 1
        else:
            self.crash_phase[state.phase] = \
                self.crash_phase.get(state.phase, 0) + 1
            self.zk.expire(client.client_id[0])
        self.log.ev('archive', outcome, state.phase, client.nwrites,
                    err_text)
        if self.violation is None and outcome != 'complete':
            self.evaluate()
        stats = self.last_stats
        if stats is not None and self.violation is None:
            self.probes['snapshots_created'] += stats['created']
            for kind in oracle.KINDS:
                for data in oracle.snapshots(self.zk, kind).values():
                    if len(data) > 1048575:
                        # informational: real ZooKeeper (jute.maxbuffer)
                        # would have refused this create
                        self.probes['snapshots_over_1MB'] = \
                            self.probes.get('snapshots_over_1MB', 0) + 1
            self.probes['events_archived'] += stats['archived']
            self.probes['finished_archived'] += stats['finished_archived']
            self.probes['server_events_archived'] += stats['server_archived']
            self.probes['events_kept_young'] += stats['kept_young']
            self.probes['events_kept_scheduled'] += stats['kept_scheduled']
            self._world_probes(state, stats, par)
            self.probes['history_pruned'] += stats['pruned']
            self.probes['policy_pruned_events'] += stats['exempt']
            if outcome != 'complete' and stats['both_live_and_archived']:
                self.probes['crash_inside_upload_delete_window'] += 1
                if injector.fired and (stats['archived'] or
                                       stats['finished_archived'] or
                                       stats['server_archived']):
                    # the failing delete came after the snapshot existed and
                    # after other nodes were already deleted
                    self.probes['delete_fault_after_partial_delete'] += 1
        self.fingerprint_state()

    def _world_probes(self, state, stats, par):
        """Reach probes of the concurrent world (present only in runs that
        have one)."""
        if not state.published and state.sched_now == state.scheduled:
            return
        probes = self.probes
        t_end = state.t_end.get('cleanup_trace')
        t_begin = state.t_begin.get('cleanup_trace')
        horizon = None
        if t_end is not None and t_begin is not None:
            horizon = t_end - par['expiry_t']
            if t_end - t_begin > par['expiry_t']:
                probes['cleanup_trace_outlasted_expiry'] = probes.get(
                    'cleanup_trace_outlasted_expiry', 0) + 1
        probes['events_published_midpass'] = probes.get(
            'events_published_midpass', 0) + len(state.published)
        probes['midpass_events_archived_legitimately'] = probes.get(
            'midpass_events_archived_legitimately', 0) + \
            stats.get('archived_published_meanwhile', 0)
        # what a pass that trusts an old reading of /scheduled would get
        # wrong: events of an instance scheduled after the pass started
        # (still scheduled) that were older than the expiry before
        # cleanup_trace ended
        risky = 0
        for inst, stamp, _name in state.published.values():
            if inst in state.sched_now and inst not in state.scheduled and \
                    horizon is not None and stamp is not None and \
                    stamp < horizon:
                risky += 1
        if risky:
            probes['midpass_scheduled_events_expired_before_pass_end'] = \
                probes.get(
                    'midpass_scheduled_events_expired_before_pass_end',
                    0) + risky

    def op_check(self, _op):
        """The oracle on the tree as it is now (obligations of the latest
        archive op, pruned snapshots accounted by the keep-newest rule)."""
        self.evaluate()
        self.fingerprint_state()

    def evaluate(self):
        if self.ar is None or self.violation is not None:
            return
        self.probes['oracle_evaluations'] += 1
        viol, stats = oracle.evaluate(self.ar, self.zk, self.api,
                                      self.clock.peek())
        self.last_stats = stats
        self.log.ev('oracle', viol['sig'] if viol else None,
                    sorted(stats.items()))
        self.fail(viol)

    def fingerprint_state(self):
        zk = self.zk
        state = [sorted(oracle.live_events(zk, z.TRACE)),
                 sorted(zk.children(z.FINISHED) or []),
                 sorted(oracle.live_events(zk, z.SERVER_TRACE)),
                 sorted(zk.children(z.SCHEDULED) or []),
                 [zk.children(oracle.HIST[k]) for k in oracle.KINDS],
                 self.last_outcome]
        fp = logmod.fingerprint(state)
        self.fps.append(fp)
        self.log.ev('state', fp)


# ---------------------------------------------------------------------------
# generation

HOSTS = ('node1.sim', 'node2.sim')
DAY = 86400
LONG_EXPIRIES = (86399, 86400, 86401, 90000, 172800, 200000)
EPS = (-1.0, -0.001, -0.00005, 0.0, 0.00002, 0.0005, 0.001, 1.0)


def _stamp(value):
    """What str(time.time()) of a publishing node looks like."""
    return str(round(value, 6))


class Generator:
    """Yields the ops of one history; looks at the virtual clock of the
    world it is executed on (adaptive), everything is recorded."""

    def __init__(self, config, streams):
        self.cfg = config
        self.rng = streams.get('gen')
        self.wrng = streams.get('world')
        self.next_id = {}

    def _inst(self, rng=None):
        rng = rng or self.rng
        shard = rng.choice(self.cfg['shards'])
        k = self.next_id.get(shard, 0)
        self.next_id[shard] = k + 1
        return '%s.%s#%010d' % (rng.choice(self.cfg['proids']),
                                rng.choice(['web', 'db', 'job']),
                                shard + 256 * k)

    def _life(self, inst, host, t_arch, base_age, par):
        """Non-terminal events of an instance: [(age at archive, type,
        data)], oldest first."""
        rng = self.rng
        uniq = 'u%04d' % rng.randint(0, 9999)
        out = [(base_age, 'pending', 'created'),
               (base_age - 0.1, 'scheduled', '%s:' % host)]
        age = base_age - 0.2
        if rng.random() < self.cfg['p_evictions']:
            for _ in range(rng.choice([1, 2, par['evict_max'] + 1])
                           if par['evict_max'] <= 3 else rng.randint(1, 2)):
                out.append((age, 'pending', 'evicted'))
                out.append((age - 0.05, 'scheduled', '%s:evicted' % host))
                age -= rng.choice([0.1, 1.0, 20.0])
        if rng.random() < 0.8:
            out.append((age, 'configured', uniq))
            age -= 0.3
        if rng.random() < 0.7:
            svc = rng.choice(['web', 'sshd'])
            for _ in range(rng.randint(1, 3)
                           if rng.random() < 0.8 else par['svc_max'] + 1):
                out.append((age, 'service_running', '%s.%s' % (uniq, svc)))
                age -= rng.choice([0.1, 2.0, 40.0])
                if rng.random() < 0.6:
                    out.append((age, 'service_exited',
                                '%s.%s.%d.0' % (uniq, svc,
                                                rng.choice([0, 1]))))
                    age -= 0.1
        return [(max(a, -0.5), t, d) for a, t, d in out[:self.cfg['max_life']]]

    def _terminal(self):
        rng = self.rng
        kind = rng.choice(['finished', 'finished', 'killed', 'aborted'])
        if kind == 'finished':
            return kind, '%d.%d' % (rng.choice([0, 1, 255]),
                                    rng.choice([0, 9, 15]))
        if kind == 'killed':
            return kind, rng.choice(['oom', ''])
        return kind, rng.choice(['invalid_type', 'image', 'timeout'])

    def round(self, world, par, n_inst, n_srv_events, main):
        """Ops of one population round followed by its archive op."""
        rng = self.rng
        exp_t, exp_f = par['expiry_t'], par['expiry_f']
        fin_ages = [exp_f * 10, exp_f * 3, exp_f + 30.0, exp_f + 0.5,
                    exp_f + 0.002, exp_f - 0.002, exp_f - 0.5, exp_f / 2.0,
                    0.3, 0.0]
        if exp_f >= DAY:
            # ages that differ from the expiry by whole days and hours
            fin_ages += [exp_f % DAY + 1.0, exp_f % DAY + 120.0,
                         exp_f - 3600.0, exp_f - 60.0]
        old_ages = [exp_f * 10, exp_f * 3, exp_f + 30.0, exp_f + 0.5,
                    exp_f + 0.002]
        base_ages = [exp_t * 10, exp_t * 3, exp_t + 5.0, exp_t + 0.8,
                     exp_t * 0.5, 2.0]
        horizon = max(exp_t, exp_f) * 10 + 60.0
        now0 = world.clock.peek()
        t_arch = now0 + horizon
        timed = []          # (age at archive, sequence, op)
        seq = [0]

        def at(age, op):
            seq[0] += 1
            timed.append((-min(age, horizon), seq[0], op))

        insts = []
        for _ in range(n_inst):
            inst = self._inst()
            host = rng.choice(HOSTS)
            role = rngmod.weighted(rng, self.cfg['roles']) if main \
                else 'finished'
            insts.append((inst, host, role))
            terms = []
            if role in ('finished', 'stale', 'refinished'):
                first = rng.choice(fin_ages if main else old_ages)
                terms.append(first)
                if role == 'refinished':
                    younger = [a for a in fin_ages if a < first]
                    if younger:
                        terms.append(rng.choice(younger))
                base_age = min(horizon, first + rng.choice(
                    [2.0, 30.0, float(exp_t)]))
            else:
                base_age = rng.choice(base_ages)
            t_sched = horizon
            at(t_sched, {'op': 'schedule', 'inst': inst, 'host': host})
            life = self._life(inst, host, t_arch, base_age, par)
            t_end = terms[0] if terms else -1.0
            # non-terminal events are published (late or on time) at the
            # scheduling instant; their `when` is what counts
            for age, etype, data in life:
                age = max(age, t_end + 0.02) if terms else age
                at(t_sched, {'op': 'event', 'inst': inst, 'host': host,
                             'when': _stamp(t_arch - age), 'type': etype,
                             'data': data})
            if role == 'stale':
                at(t_sched, {'op': 'unplace', 'inst': inst, 'host': host})
            if role == 'deleted':
                age = rng.choice(base_ages)
                at(age, {'op': 'unschedule', 'inst': inst})
                at(age, {'op': 'event', 'inst': inst, 'host': host,
                         'when': _stamp(t_arch - age), 'type': 'deleted',
                         'data': ''})
            for age in terms:
                etype, data = self._terminal()
                payload = 'reason: x' if etype == 'aborted' else None
                op = {'op': 'event', 'inst': inst, 'host': host,
                      'when': _stamp(t_arch - age - 0.01), 'type': etype,
                      'data': data}
                if payload:
                    op['payload'] = payload
                at(age, op)
        bulk = self.cfg.get('bulk') if main else None
        if bulk:
            op = {'op': 'bulk', 'kind': bulk['kind'], 'count': bulk['count'],
                  'ninst': bulk['ninst'], 'id0': 1000000, 'step': 0.001}
            if bulk['kind'] == 'finished':
                at(exp_f * 3, op)
            else:
                op['ts'] = round(t_arch - exp_t * 3, 6)
                at(horizon, op)
        servers = self.cfg['servers']
        for _ in range(n_srv_events):
            server = rng.choice(servers)
            age = rng.choice(base_ages + [0.0, 0.1])
            etype = rng.choice(['server_state', 'server_state',
                                'server_blackout',
                                'server_blackout_cleared'])
            data = rng.choice(['up', 'down', 'frozen']) \
                if etype == 'server_state' else ''
            at(age, {'op': 'srv_event', 'server': server, 'host': server,
                     'when': _stamp(t_arch - age), 'type': etype,
                     'data': data})
        timed.sort()
        left = horizon
        for neg_age, _seq, op in timed:
            age = -neg_age
            if age < left:
                dt = round(left - age, 6)
                if dt > 0:
                    yield {'op': 'advance', 'dt': dt}
                left -= dt
            yield op
        if left > 0:
            yield {'op': 'advance', 'dt': round(left, 6)}
        if main:
            # events with timestamps at the expiry boundary of the archive
            # call that follows immediately
            now = world.clock.peek()
            for _ in range(rng.randint(2, 6)):
                inst, host, _role = rng.choice(insts)
                delta = rng.choice(EPS)
                etype, data = rng.choice([
                    ('service_running', 'u0001.web'),
                    ('service_exited', 'u0001.web.0.0'),
                    ('configured', 'u0001'), ('pending', 'monitor')])
                yield {'op': 'event', 'inst': inst, 'host': host,
                       'when': _stamp(now - exp_t + delta), 'type': etype,
                       'data': data}
            if exp_t >= DAY:
                # a long expiry: events of unscheduled instances younger
                # than it by hours and by whole days, enough for a batch
                gone = [i for i in insts if i[2] in (
                    'finished', 'refinished', 'deleted')] or insts
                ages = [exp_t % DAY + 1.0, exp_t % DAY + 60.0, exp_t / 2.0,
                        exp_t - 3600.0, exp_t - 60.0, exp_t - 1.0]
                for n in range(min(par['trace_batch'], 12) +
                               rng.randint(1, 4)):
                    inst, host, _role = rng.choice(gone)
                    yield {'op': 'event', 'inst': inst, 'host': host,
                           'when': _stamp(now - rng.choice(ages) - n * 0.01),
                           'type': 'service_running',
                           'data': 'u%04d.web' % (2000 + n)}
        if main and rng.random() < 0.35:
            # a node whose clock runs ahead publishes an event (stamped in
            # the future of the archiver's host)
            inst, host, _role = rng.choice(insts)
            yield {'op': 'event', 'inst': inst, 'host': host,
                   'when': _stamp(world.clock.peek() +
                                  rng.choice([0.3, 2.0, 30.0])),
                   'type': 'service_running', 'data': 'u0002.web'}
        mode = self.cfg.get('world') if main else None
        if mode:
            yield dict(par, op='archive',
                       world=self.world_plan(mode, par, insts))
        else:
            yield dict(par, op='archive')

    # -- the world while the archiver runs ------------------------------
    def _new_instance(self, acts, amax, finish):
        """Acts of an instance the master schedules now (a new id: the
        master never reuses one) with the events the master and the node
        publish in its first moments; finish: 'now' (a short job that is
        already over), or None (goes on running).  -> (inst, host)"""
        rng = self.wrng
        inst = self._inst(rng)
        host = rng.choice(HOSTS)
        uniq = 'w%04d' % rng.randint(0, 9999)
        acts.append({'op': 'schedule', 'inst': inst, 'host': host})
        life = [('pending', 'created'), ('scheduled', '%s:' % host),
                ('configured', uniq)]
        if rng.random() < 0.5:
            life.append(('service_running', '%s.web' % uniq))
        age = amax
        step = amax / (len(life) + 2)
        for etype, data in life:
            acts.append({'op': 'event', 'inst': inst, 'host': host,
                         'age': round(age, 6), 'type': etype, 'data': data})
            age -= step
        if finish == 'now':
            acts.append(self._finish_act(inst, host, max(age, 0.0)))
        return inst, host

    def _finish_act(self, inst, host, age):
        """The node reports the end of the instance (real publish: writes
        /finished/<inst> and removes /scheduled/<inst>)."""
        etype, data = self.wrng.choice([('finished', '0.0'),
                                        ('finished', '1.0'),
                                        ('killed', 'oom')])
        return {'op': 'event', 'inst': inst, 'host': host,
                'age': round(age, 6), 'type': etype, 'data': data}

    def world_plan(self, mode, par, insts):
        """What the rest of the cell does between two ZooKeeper calls of
        the pass (see World._world_hook).  Realism bounds that the plan
        keeps (the archiver reads /scheduled, then lists the shards: an
        instance scheduled in between must not already have events older
        than the expiry when its shard is listed): an event is stamped at
        most `amax` <= expiry/15 before it is published, instance ids are
        new, and the reads after the reading of /scheduled (at most 8) take
        less than 0.4 expiry together (reads are cheap, one of them may be
        slow by at most expiry/4)."""
        rng = self.wrng
        exp_t = float(par['expiry_t'])
        batch = int(par['trace_batch'])
        amax = min(2.0, exp_t / 15.0)
        # calls of cleanup_trace: 1 /scheduled, 2 /trace, then the shards
        # (the configured ones and the one a bulk op makes), then per batch
        # one create and two calls (get_children, delete) per event
        nlist = 2 + len(self.cfg['shards']) + (1 if self.cfg.get('bulk')
                                               else 0)
        points = []
        if mode['kind'] == 'long_run':
            costs = {'write_cost': round(exp_t / mode['cost_div'], 6),
                     'read_cost': rng.choice([0.0, 0.0, 0.001,
                                              round(exp_t / 1000.0, 6)])}
            # the master schedules a service and a burst of short jobs
            # comes (and partly goes) at one instant early in the pass ...
            first = rng.choice([2, 3, nlist + 1,
                                nlist + rng.randint(2, 2 * batch + 1)])
            acts = []
            self._new_instance(acts, amax, None)
            running = []
            nev = 0
            while nev < batch + 2:
                before = len(acts)
                finish = rng.choice(['now', 'now', 'later', None])
                inst, host = self._new_instance(
                    acts, amax * 0.6, 'now' if finish == 'now' else None)
                if finish == 'later':
                    running.append((inst, host))
                nev += len(acts) - before - 1
            points.append({'phase': 'cleanup_trace', 'call': first,
                           'dt': 0.0, 'acts': acts})
            # ... the others finish a little later
            for inst, host in running:
                points.append({'phase': 'cleanup_trace',
                               'call': first + rng.randint(1, 4 * batch),
                               'dt': 0.0,
                               'acts': [self._finish_act(inst, host, 0.05)]})
            return dict(costs, points=points)
        # light: a few things happen at a few points of the pass
        costs = {'write_cost': rng.choice([0.002, 0.05,
                                           round(exp_t / 200.0, 6),
                                           round(exp_t / 60.0, 6)]),
                 'read_cost': rng.choice([0.0, 0.0, 0.0005, 0.01])}
        if rng.random() < 0.5:
            # an ensemble that answers at once: the instants of the pass
            # are those of a pass in a world that holds still (timestamps a
            # few microseconds from the expiry keep their side)
            costs = {'write_cost': 0.0, 'read_cost': 0.0}
        gone = [i for i in insts if i[2] in ('finished', 'refinished',
                                             'deleted')]
        running = [i for i in insts if i[2] == 'running']
        spiked = set()
        started = []
        for _ in range(rng.randint(2, 5)):
            phase = rngmod.weighted(rng, [['cleanup_trace', 6]] + [
                [ph, 1] for ph in oracle.PHASES if ph != 'cleanup_trace'])
            call = rng.choice([1, 2, 2, 3, nlist, nlist + 1, nlist + 2,
                               nlist + rng.randint(3, 20)])
            dt = 0.0
            if phase not in spiked and rng.random() < 0.3:
                spiked.add(phase)
                dt = round(exp_t / rng.choice([4.0, 6.0, 10.0, 50.0]), 6)
            acts = []
            for _n in range(rng.randint(1, 3)):
                what = rng.choice(['service', 'short_job', 'job_start',
                                   'job_end', 'late_event', 'finish',
                                   'delete'])
                if what == 'service':
                    self._new_instance(acts, amax, None)
                elif what == 'short_job':
                    self._new_instance(acts, amax, 'now')
                elif what == 'job_start':
                    started.append(self._new_instance(acts, amax, None))
                elif what == 'job_end' and started:
                    # (at an earlier point of the list, not necessarily of
                    # the pass: ending a job that has not started is a
                    # stale event of an unknown instance)
                    inst, host = started.pop(0)
                    acts.append(self._finish_act(inst, host, 0.05))
                elif what == 'late_event' and gone:
                    # a late event of an instance that is over, stamped
                    # when it happened
                    inst, host, _role = rng.choice(gone)
                    acts.append({
                        'op': 'event', 'inst': inst, 'host': host,
                        'age': round(rng.choice([0.0, 1.0, exp_t / 2.0,
                                                 exp_t + 5.0, exp_t * 3]), 6),
                        'type': 'service_exited',
                        'data': 'w%04d.web.0.0' % rng.randint(0, 9999)})
                elif what == 'finish' and running:
                    inst, host, _role = running.pop(
                        rng.randrange(len(running)))
                    acts.append(self._finish_act(inst, host, 0.05))
                elif what == 'delete' and running:
                    inst, host, _role = running.pop(
                        rng.randrange(len(running)))
                    acts.append({'op': 'unschedule', 'inst': inst})
                    acts.append({'op': 'event', 'inst': inst, 'host': host,
                                 'age': 0.0, 'type': 'deleted', 'data': ''})
            points.append({'phase': phase, 'call': call, 'dt': dt,
                           'acts': acts})
        if gone and rng.random() < 0.6:
            # a node that was cut off delivers what it had queued: at least
            # a batch of events of instances that are long over, before the
            # archiver lists the shards (old enough: archived by this pass)
            phase = rng.choice(['prune_trace_evictions',
                                'prune_trace_service_events',
                                'cleanup_trace', 'cleanup_trace'])
            acts = []
            for n in range(min(batch, 12) + rng.randint(1, 3)):
                inst, host, _role = rng.choice(gone)
                acts.append({
                    'op': 'event', 'inst': inst, 'host': host,
                    'age': round(exp_t * rng.choice([1.5, 2.0, 3.0]) +
                                 n * 0.01, 6),
                    'type': 'service_exited',
                    'data': 'w%04d.web.%d.0' % (3000 + n, n % 2)})
            points.append({'phase': phase, 'call': rng.choice([1, 2]),
                           'dt': 0.0, 'acts': acts})
        return dict(costs, points=points)

    def history(self, world):
        cfg = self.cfg
        rng = self.rng
        for _ in range(cfg['pre_rounds']):
            par = dict(cfg['archive'])
            par['trace_batch'] = rng.randint(1, 3)
            par['finished_batch'] = rng.randint(1, 2)
            par['max_t'] = par['max_t'] + rng.choice([0, 1, 2])
            par['max_f'] = par['max_f'] + rng.choice([0, 1, 2])
            for op in self.round(world, par, rng.randint(2, 4),
                                 rng.randint(0, 4), False):
                yield op
        for op in self.round(world, dict(cfg['archive']), cfg['n_inst'],
                             cfg['n_srv_events'], True):
            yield op
        yield {'op': 'check'}


def make_config(prop, tier, rng):
    big = tier == 'thorough'
    cfg = {'start': 1700000000.0 + rng.randint(0, 7 * 86400)}
    cfg['shards'] = sorted(rng.sample([0, 1, 2, 127, 255],
                                      rng.randint(2, 4)))
    cfg['server_shards'] = sorted(rng.sample(range(256), 3))
    cfg['proids'] = ['proid%d' % i for i in range(rng.randint(1, 2))]
    cfg['servers'] = ['s%d.sim' % i for i in range(rng.randint(1, 3))]
    cfg['n_inst'] = rng.randint(3, 12 if big else 6)
    cfg['n_srv_events'] = rng.randint(0, 12 if big else 7)
    cfg['max_life'] = rng.choice([8, 12, 20] if big else [5, 8, 10])
    cfg['pre_rounds'] = rng.choice([0, 1, 1, 2])
    cfg['p_evictions'] = rng.choice([0.0, 0.15, 0.4])
    cfg['roles'] = [['running', rng.choice([1, 2, 3])],
                    ['finished', rng.choice([3, 5])],
                    ['refinished', rng.choice([0, 1, 2])],
                    ['stale', rng.choice([0, 1])],
                    ['deleted', rng.choice([0, 1, 2])]]
    cfg['archive'] = {
        'trace_batch': rng.randint(1, 7),
        'finished_batch': rng.choice([1, 1, 2, 2, 3, 4, 7]),
        'expiry_t': rng.choice([300, 60, 30, 3600]),
        'expiry_f': rng.choice([300, 60, 600]),
        'max_t': rng.randint(1, 4), 'max_f': rng.randint(1, 4),
        'evict_max': rng.choice([10, 3, 2]),
        'svc_max': rng.choice([10, 3, 2])}
    cfg['recover_frac'] = 1.0 if big else 0.25
    cfg['conn_loss_points'] = None if big else 8
    cfg['delete_fault_points'] = None if big else 10
    cfg['child_order'] = rng.getrandbits(32) if rng.random() < 0.5 else None
    # heavy tail of batch size and volume: most runs as above; 1 in 12 with
    # a batch size above 10000 (1 in 14), 1 in 12 at a plausible constant, with enough
    # archivable records of one kind to fill at least one batch
    cfg['bulk'] = None
    cfg['crash_sample'] = None
    draw = rng.random()
    if draw < 1.0 / 14 + 1.0 / 12:
        if draw < 1.0 / 14:
            # 10001..20000, most of the mass just above 10000
            batch = 10001 + int(9999 * rng.random() ** 3)
            count = batch + rng.randint(0, 300)
        else:
            batch = rng.choice([100] * 4 + [1000] * 3 + [1024] * 3 +
                               [4096, 5000, 8192, 9999])
            full = 1 if batch >= 4096 else rng.choice([1, 2, 3])
            count = batch * full + rng.randint(0, min(batch - 1, 200))
        # (the trace kind costs most: both policy prunes parse every event)
        kind = rng.choice(['trace', 'trace', 'finished', 'server']
                          if count <= 2500 else
                          ['trace', 'finished', 'finished', 'server'])
        cfg['bulk'] = {'kind': kind, 'count': count,
                       'ninst': rng.choice([1, 3, 4])}
        cfg['archive']['finished_batch' if kind == 'finished'
                       else 'trace_batch'] = batch
        # every write of such a pass cannot be enumerated: the create of the
        # biggest batch (before / after it exists), the middle of its
        # deletes, and random points
        heavy = count > 2500
        cfg['crash_sample'] = 30 if big else (2 if heavy else 8)
        cfg['conn_loss_points'] = 4 if big else (0 if heavy else 1)
        cfg['delete_fault_points'] = 4 if big else 1
        cfg['heavy'] = heavy and not big
        cfg['recover_frac'] = 0.5 if big else (0.1 if heavy else 0.15)
        cfg['pre_rounds'] = 0 if heavy else min(cfg['pre_rounds'], 1)
        if heavy:
            cfg['n_inst'] = min(cfg['n_inst'], 4)
    # expiries around and above one day, trace and finished independently
    if rng.random() < 1.0 / 8:
        cfg['archive']['expiry_t'] = rng.choice(LONG_EXPIRIES)
    if rng.random() < 1.0 / 8:
        cfg['archive']['expiry_f'] = rng.choice(LONG_EXPIRIES)
    # the world goes on while the pass runs (drawn last: the configurations
    # of the other runs are what they were): in the runs without a bulk
    # volume 22 % are the staged `long_run` (a backlog of expired events
    # and a slow ensemble: the pass lasts about two expiries, early in it
    # the master schedules a service and a burst of short jobs comes and
    # goes), 28 % have a few random things happen at a few random points
    cfg['world'] = None
    draw = rng.random()
    div = rng.choice([25, 30, 40])
    extra = rng.random()
    if cfg['bulk'] is None:
        if draw < 0.22:
            batch = cfg['archive']['trace_batch']
            cfg['world'] = {'kind': 'long_run', 'cost_div': div}
            cfg['bulk'] = {'kind': 'trace',
                           'count': 2 * batch + div + div // 2 +
                                    int(extra * (batch + 1)),
                           'ninst': rng.choice([1, 3, 4])}
            cfg['crash_sample'] = 12 if big else 8
            cfg['conn_loss_points'] = 6 if big else 3
            cfg['delete_fault_points'] = 6 if big else 3
            cfg['recover_frac'] = 0.5 if big else 0.2
            cfg['pre_rounds'] = min(cfg['pre_rounds'], 1)
            cfg['n_inst'] = min(cfg['n_inst'], 6)
        elif draw < 0.22 + 0.28:
            cfg['world'] = {'kind': 'light'}
    return cfg


class TraceSim(enginemod.Engine):
    name = 'tracesim'
    serves = ('C18',)
    real_components = (
        'treadmill.trace._zk (upload_batch, download_batch, cleanup)',
        'treadmill.trace.app.zk (publish, _unschedule, prune_trace_evictions, '
        'prune_trace_service_events, cleanup_trace, cleanup_finished, '
        'cleanup_trace_history, cleanup_finished_history, list_traces)',
        'treadmill.trace.server.zk (publish, cleanup_server_trace, '
        'cleanup_server_trace_history)',
        'treadmill.zkutils (create, put, ensure_deleted, with_retry)',
        'treadmill.zknamespace (shard layout)',
        'kazoo.retry.KazooRetry (retry logic), kazoo exceptions',
        'sqlite3, zlib, tempfile (directory on /dev/shm)',
    )
    stub_components = (
        'ZooKeeper: simkit.zk (single-copy, linearizable, sequence nodes, '
        'stat mtime from the virtual clock)',
        'clock (virtual); KazooRetry sleeps on it, jitter fixed to 1.0',
        'sproc/trace.py cleanup(): click wiring, election lock and the '
        '`while True ... time.sleep(interval)` loop replaced by one pass of '
        'the loop body per archive op (same eight calls, same argument '
        'wiring: server trace uses trace_batch_size and '
        'trace_history_max_count)',
        'Master.create_rootns: the harness creates the root nodes and a '
        'subset of the 256+256 shards',
        'sysinfo.hostname(): _HOSTNAME of the publishing modules set per op',
        'the rest of the cell while a pass runs: the master (zkutils.put of '
        '/scheduled/<inst> and the placement) and the publishing nodes (real '
        'trace.app.zk.publish) act at recorded points between two ZooKeeper '
        'calls of the archiver; the duration of a ZooKeeper call is a '
        'recorded number',
    )

    def level(self, prop):
        return 'fault_enumeration'

    def rule(self, prop):
        return (
            'a run = one seeded history: 0-2 earlier populations each '
            'archived fault-free by the real archiver (pre-existing '
            'snapshots), then a population of scheduled / finished / '
            're-finished / stale-finished / deleted instances over 2-4 '
            'shards with event timestamps far older, just older, just '
            'younger than the expiry (down to 20 us) and brand new, in 35 % '
            'of the runs one stamped 0.3 - 30 s in the future (a node whose '
            'clock runs ahead), finished '
            'records whose mtimes straddle the expiry by 2 ms, server events;'
            ' batch sizes 1-7, max history 1-4; expiries 30 s - 1 h, and in 1 '
            'run in 8 each (trace, finished independently) 86399, 86400, '
            '86401, 90000, 172800 or 200000 s with records of unscheduled '
            'instances aged N mod 1 day + 1 s ... N - 1 s in numbers filling '
            'a batch; heavy tail decided by the '
            'seed: 1 run in 14 with a batch size in 10001..20000 and 1 in 12 '
            'at 100, 1000, 1024, 4096, 5000, 8192 or 9999, with enough '
            'archivable records of one kind (one `bulk` op writing them '
            'straight into the tree) to fill at least one batch - in those '
            'runs the crash points are a sample (the create of the biggest '
            'batch before/after it exists, the middle of its deletes, random '
            'points), not every write.  The cron loop body (8 '
            'calls) runs once fault-free with the oracle after every call; '
            'then the pass is re-executed once per ZooKeeper write k of it '
            'and applied in (no, yes) with a crash there (on a copy of the '
            'tree, clock and log the fault-free prefix left; the first '
            'variant of every fault kind and the first one with recovery of '
            'every run and every violating variant are '
            'cross-checked against re-execution of the whole op list, '
            'digest for digest; oracle on the tree at the crash instant), a '
            'sample (quick) or '
            'all (thorough) followed by a restart of the archiver to '
            'completion and the oracle again; ConnectionLoss applied / not '
            'applied at a sample (quick) or all (thorough) k; at a sample '
            '(quick) or all (thorough) deletes of the pass a persistent '
            'NoAuthError / NotEmptyError on that node and a ConnectionLoss '
            'outage of 4, 5 or 7 consecutive calls (KazooRetry gives up '
            'after 5).  The world during the pass (runs without a bulk '
            'volume): 28 % `light` - every mutating ZooKeeper call of '
            'the pass costs 2 ms - expiry/60 s, every read 0 - 10 ms (in half '
            'of these runs neither costs anything), at 2-5 '
            'points (phase, k-th call of the '
            'phase; mostly in cleanup_trace: before / after the reading of '
            '/scheduled, around the listing, during the deletes) a call takes '
            'up to expiry/4 longer and the master schedules new instances '
            '(events published with them), short jobs start and finish, '
            'running instances finish or are deleted, late events of '
            'finished instances arrive (stamped up to 3 expiries ago; in 6 '
            'of 10 such runs at least a batch of them before the shards are '
            'listed); 22 % '
            'the staged `long_run`: a backlog of 2 batches '
            '+ 37-60 expired events, every mutating call costs expiry/25 - '
            'expiry/40, a read 0 - expiry/1000 (the pass lasts about two '
            'expiries), early in cleanup_trace the master '
            'schedules a service and a burst of short jobs (at least a '
            'batch of events) comes and partly goes.  All of it is part of '
            'the archive op; every fault variant re-executes it; a recovery '
            'pass keeps the call cost only.  Non-trivial: '
            'a crash variant that landed strictly inside the pass (after '
            'the first and before the last write); distinct traces = '
            'distinct fault-free histories.')

    def assumptions(self, prop):
        return [
            'ZooKeeper is a single-copy linearizable store; a create of a '
            'snapshot node is atomic',
            'one archiver at a time (the election lock of sproc/trace.py is '
            'not simulated); while it runs the master and the publishing '
            'nodes write at the recorded points (`world` entry of the archive '
            'op), nothing else does',
            'the world is realistic in what cleanup_trace relies on between '
            'its reading of /scheduled and its listing of the shards: '
            'instance ids are never reused, an event is stamped at most '
            'expiry/15 (<= 2 s) before it is published unless its instance '
            'is already over, and that stretch of the pass (at most 8 '
            'ZooKeeper calls) takes less than half an expiry; "still '
            'scheduled" and "younger than the expiry" are judged at the '
            'moment an event is deleted from /trace',
            'events deleted by prune_trace_evictions / '
            'prune_trace_service_events (deliberate policy deletions made by '
            'the same cron pass) are outside the property',
            'the payload (znode data) of an app trace event is not part of '
            'the archived event (the archiver stores None by design); the '
            'data of a finished record is',
            'snapshots dropped by a history prune according to keep-newest '
            'take their content with them legitimately',
        ]

    def quick_runs(self, prop):
        return 48

    def make_config(self, prop, tier, rng):
        return make_config(prop, tier, rng)

    def _shrink_world(self, config, ops):
        """The `world` plan of the archive ops (ddmin cannot look into an
        op): whole points, then single acts, dropped greedily while the
        same signature persists.  -> smaller op list or None."""
        targets = [i for i, op in enumerate(ops) if op.get('op') == 'archive'
                   and (op.get('world') or {}).get('points')]
        if not targets:
            return None
        ref = self._run(config, 0, ops, False)
        if ref.violation is None:
            return None
        sig = ref.violation['sig']
        ops = [dict(op) for op in ops]
        tests = [0]

        def fails(i, points):
            tests[0] += 1
            trial = list(ops)
            trial[i] = dict(ops[i], world=dict(ops[i]['world'],
                                               points=points))
            res = self._run(config, 0, trial, False)
            return res.violation is not None and res.violation['sig'] == sig
        changed = False
        for i in targets:
            points = [dict(p) for p in ops[i]['world']['points']]
            k = len(points) - 1
            while k >= 0 and tests[0] < 60:
                trial = points[:k] + points[k + 1:]
                if fails(i, trial):
                    points = trial
                k -= 1
            for k in range(len(points)):
                a = len(points[k].get('acts') or ()) - 1
                while a >= 0 and tests[0] < 140:
                    acts = points[k]['acts']
                    trial = list(points)
                    trial[k] = dict(points[k], acts=acts[:a] + acts[a + 1:])
                    if fails(i, trial):
                        points = trial
                    a -= 1
            if len(points) < len(ops[i]['world']['points']) or any(
                    len(p.get('acts') or ()) < len(q.get('acts') or ())
                    for p, q in zip(points, ops[i]['world']['points'])):
                ops[i] = dict(ops[i], world=dict(ops[i]['world'],
                                                 points=points))
                changed = True
        return ops if changed else None

    def shrink_candidates(self, config, ops):
        """Consecutive advances merged into one (same instants); then the
        world plan of the archive ops thinned out; then the
        count of a bulk op (and with it the batch size of the archive ops
        that follow, never above the count) bisected down while the same
        signature persists."""
        merged = []
        for op in ops:
            if op.get('op') == 'advance' and merged and \
                    merged[-1].get('op') == 'advance':
                merged[-1] = {'op': 'advance',
                              'dt': round(merged[-1]['dt'] + op['dt'], 6)}
            else:
                merged.append(dict(op))
        if len(merged) < len(ops):
            yield config, merged
        slim = self._shrink_world(config, merged)
        if slim is not None:
            merged = slim
            yield config, merged
        bulks = [i for i, op in enumerate(merged) if op.get('op') == 'bulk'
                 and int(op.get('count', 0)) > 1]
        if not bulks:
            return
        ref = self._run(config, 0, merged, False)
        if ref.violation is None:
            return
        sig = ref.violation['sig']
        i = bulks[-1]
        key = 'finished_batch' if merged[i].get('kind') == 'finished' \
            else 'trace_batch'

        def variant(n):
            out = [dict(op) for op in merged]
            out[i]['count'] = n
            for op in out[i + 1:]:
                if op.get('op') == 'archive' and key in op:
                    op[key] = max(1, min(int(op[key]), n))
            return out

        def fails(n):
            res = self._run(config, 0, variant(n), False)
            return res.violation is not None and res.violation['sig'] == sig
        low, high = 0, int(merged[i]['count'])     # fails(high) is known
        tests = 0
        while high - low > 1 and tests < 18:
            mid = (low + high) // 2
            tests += 1
            if fails(mid):
                high = mid
            else:
                low = mid
        if high < int(merged[i]['count']):
            yield config, variant(high)

    # ------------------------------------------------------------------
    def _run(self, config, seed, ops, keep_log, resume=None,
             checkpoint=False):
        """Execute `ops` (None: generate).  resume: a checkpoint made by an
        earlier call with checkpoint=True; `ops` then continue it."""
        res = enginemod.Result()
        log = logmod.EventLog(keep=keep_log)
        if resume is None:
            log.ev('prop', 'C18')
            clock = clockmod.Clock(config['start'])
        else:
            log._h = resume['hash'].copy()
            log.lines = list(resume['lines']) if keep_log else []
            log.count = resume['count']
            clock = clockmod.Clock(config['start'])
            clock.us = resume['us']
        clock.install()
        saved_tmp = tempfile.tempdir
        _SCRATCH_N[0] += 1
        scratch = '/dev/shm/tmverif-%d-%d' % (os.getpid(), _SCRATCH_N[0])
        os.makedirs(scratch)
        tempfile.tempdir = scratch
        saved_random = kretry.random
        kretry.KazooRetry = _DetRetry
        kretry.random = _NoJitter
        try:
            world = World(config, clock, log, resume)
            if resume is None:
                t_begin = clock.peek()
                executed = []
            else:
                t_begin = resume['t_begin']
                executed = list(resume['ops'])
            n = len(executed)
            source = iter(ops) if ops is not None else \
                Generator(config, rngmod.Streams(seed)).history(world)
            for op in source:
                if world.violation is not None:
                    break
                n += 1
                world.step = n
                executed.append(op)
                log.ev('op', op)
                world.apply(op)
            if checkpoint:
                return world.checkpoint(executed, t_begin)
            res.ops = executed
            res.violation = world.violation
            res.steps = n
            res.sim_s = clock.peek() - t_begin
            res.faults = dict(world.faults)
            res.probes = dict(world.probes)
            res.fps = world.fps
            res.trace_fp = logmod.fingerprint(executed)
            if world.violation is not None:
                log.ev('violation', world.violation['sig'])
            res.digest = log.digest()
            res.log_lines = log.lines if keep_log else None
            res.extra = {'writes': world.last_archive_writes,
                         'delete_points': list(world.last_delete_points),
                         'create_points': list(world.last_create_points),
                         'crash_phase': dict(world.crash_phase),
                         'outcome': world.last_outcome}
        finally:
            kretry.KazooRetry = _REAL_RETRY
            kretry.random = saved_random
            tempfile.tempdir = saved_tmp
            clock.uninstall()
            shutil.rmtree(scratch, ignore_errors=True)
        return res

    def execute(self, prop, config, seed, ops=None, keep_log=False):
        if ops is not None:
            res = self._run(config, seed, ops, keep_log)
            res.extra = {}
            return res
        # 1. the fault-free history (oracle after every call of the pass)
        base = self._run(config, seed, None, keep_log)
        nwrites = base.extra['writes']
        dpoints = base.extra['delete_points']
        cpoints = base.extra['create_points']
        base.extra = {}
        if base.violation is not None:
            return base
        history = base.ops
        j = max(i for i, op in enumerate(history) if op['op'] == 'archive')
        total = enginemod.Result()
        total.ops = history
        total.faults = dict(base.faults)
        total.probes = dict(base.probes)
        total.fps = list(base.fps)
        total.steps = base.steps
        total.sim_s = base.sim_s
        digests = [base.digest]
        streams = rngmod.Streams(seed)
        rec_rng = streams.get('recover')
        cl_rng = streams.get('conn_loss')
        exp_t = history[j]['expiry_t']
        variants = []
        crash_ks = list(range(1, nwrites + 1))
        limit = config.get('crash_sample')
        if limit is not None and nwrites > 2 * limit:
            cp_rng = streams.get('crash_points')
            # the create followed by the longest run of deletes
            ends = cpoints[1:] + [nwrites + 1]
            near = []
            if cpoints:
                size, first = max((e - c, -c) for c, e in zip(cpoints, ends))
                first = -first
                near = sorted({first, min(nwrites, first + size // 2)})
            near = near[:limit]
            rest = [k for k in crash_ks if k not in near]
            crash_ks = sorted(near + cp_rng.sample(
                rest, max(0, min(len(rest), limit - len(near)))))
            total.probes['crash_points_sampled_runs'] = 1
        for k in crash_ks:
            for applied in (False, True):
                if config.get('heavy') and applied and k != crash_ks[0]:
                    continue
                variants.append({'at': k, 'kind': 'crash',
                                 'applied': applied})
        points = list(range(1, nwrites + 1))
        if config['conn_loss_points'] is not None and \
                len(points) > config['conn_loss_points']:
            points = sorted(cl_rng.sample(points, config['conn_loss_points']))
        for k in points:
            for applied in (False, True):
                variants.append({'at': k, 'kind': 'conn_loss',
                                 'applied': applied})
        # deletes that fail although the session lives: a node the archiver
        # may not delete, an outage that outlasts the retries
        df_rng = streams.get('delete_fault')
        limit = config.get('delete_fault_points')
        points = list(dpoints)
        if limit is not None and len(points) > limit:
            points = sorted(df_rng.sample(points, limit))
        for k in points:
            if limit is None:
                for error in sorted(DELETE_ERRORS):
                    variants.append({'at': k, 'kind': 'delete_error',
                                     'error': error})
                for count in (4, 5, 7):
                    for applied in (False, True):
                        variants.append({'at': k, 'kind': 'conn_outage',
                                         'count': count, 'applied': applied})
            else:
                variants.append({'at': k, 'kind': 'delete_error',
                                 'error': df_rng.choice(sorted(
                                     DELETE_ERRORS))})
                outage = {'at': k, 'kind': 'conn_outage',
                          'count': df_rng.choice([5, 5, 4, 7]),
                          'applied': df_rng.random() < 0.5}
                if not config.get('heavy'):
                    variants.append(outage)
        # the fault-free prefix is executed once and resumed from (the
        # variants differ only from op j on); cross-checked below
        prefix = self._run(config, seed, history[:j], keep_log,
                           checkpoint=True)
        prefix_sim = prefix['us'] / 1000000.0 - prefix['t_begin']
        total.steps += j
        total.sim_s += prefix_sim
        checked = set()     # fault kinds / 'recovery' already cross-checked
        for fault in variants:
            ops_v = history[:j] + [dict(history[j], fault=fault),
                                   {'op': 'check'}]
            if rec_rng.random() < config['recover_frac']:
                again = dict(history[j])
                if again.get('world'):
                    # (what happened during the first pass has happened;
                    # the ensemble is as slow as it was)
                    again['world'] = {k: v for k, v in again['world'].items()
                                      if k != 'points'}
                ops_v += [{'op': 'advance',
                           'dt': rec_rng.choice([0.5, 61.0, exp_t + 1.0])},
                          again, {'op': 'check'}]
                total.probes['recoveries'] += 1
            res = self._run(config, seed, ops_v[j:], keep_log,
                            resume=prefix)
            # count what was executed, not the resumed prefix
            ran_steps = res.steps - j
            ran_sim = res.sim_s - prefix_sim
            category = 'recovery' if len(ops_v) > j + 2 else fault['kind']
            if config.get('heavy'):
                # no routine cross-check in a heavy run (the other runs of
                # the batch make it); a violating variant still is
                checked.add(category)
            if res.violation is not None or category not in checked:
                # plain re-execution of the whole op list must agree
                full = self._run(config, seed, ops_v, keep_log)
                if full.digest != res.digest or full.ops != res.ops or \
                        (full.violation or {}).get('sig') != \
                        (res.violation or {}).get('sig'):
                    raise HarnessError(
                        'resumed variant %r differs from its re-execution: '
                        '%s/%s vs %s/%s' % (fault, res.digest, res.violation,
                                            full.digest, full.violation))
                res = full
                checked.add(category)
                ran_steps += full.steps
                ran_sim += full.sim_s
            phases = res.extra['crash_phase']
            res.extra = {}
            total.steps += ran_steps
            total.sim_s += ran_sim
            for key, val in res.faults.items():
                total.faults[key] = total.faults.get(key, 0) + val
            for key in ('crash_inside_upload_delete_window',
                        'conn_loss_fired', 'conn_loss_retried_ok',
                        'archiver_died_conn_loss', 'delete_error_fired',
                        'conn_outage_fired',
                        'conn_outage_survived', 'retry_exhausted',
                        'delete_fault_after_partial_delete',
                        'archiver_raised_unexpected', 'oracle_evaluations',
                        'api_download_checks', 'api_list_checks'):
                if key in res.probes:
                    total.probes[key] = total.probes.get(key, 0) + \
                        res.probes[key]
            for phase, cnt in phases.items():
                key = 'stopped_in:' + phase
                total.probes[key] = total.probes.get(key, 0) + cnt
            if fault['kind'] == 'crash':
                total.probes['crash_variants'] += 1
                k = fault['at']
                if 1 < k < nwrites or (k == 1 and fault['applied']) or \
                        (k == nwrites and not fault['applied']):
                    total.nontrivial += 1
            total.fps.extend(res.fps)
            digests.append(res.digest)
            if res.violation is not None:
                res.probes = total.probes
                res.faults = total.faults
                res.nontrivial = total.nontrivial
                res.steps = total.steps
                res.sim_s = total.sim_s
                res.fps = total.fps
                return res
        total.trace_fp = logmod.fingerprint(history)
        total.digest = str(logmod.fingerprint(digests))
        if keep_log:
            total.log_lines = base.log_lines
        return total


ENGINE = TraceSim()
