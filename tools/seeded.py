"""Run the checks against the independently written property-breaking changes
kept under /verif/seeded/<id>/ (patch.diff, demo, meta.json).

Each patch is applied to a scratch copy of the repository tree on /dev/shm
(never to /repo), the property's check is pointed at it with VERIF_REPO and
must exit 1 with a VIOLATION line; the copy is removed afterwards.

usage: python tools/seeded.py [id ...] [--tier quick|thorough] [--demo]
  --demo  also run the demonstration program with and without the change
"""

import json
import os
import shutil
import subprocess
import sys
import tempfile

HERE = os.path.dirname(os.path.abspath(__file__))
VERIF = os.path.dirname(HERE)
SEEDED = os.path.join(VERIF, 'seeded')


def scratch_tree():
    root = tempfile.mkdtemp(prefix='tmverif-seeded-', dir='/dev/shm')
    dst = os.path.join(root, 'lib', 'python')
    os.makedirs(dst)
    subprocess.check_call(['cp', '-r', '/repo/lib/python/treadmill', dst])
    shutil.copy('/repo/entry_points.txt', root)
    return root


def apply_patch(root, patch):
    proc = subprocess.run(['patch', '-p1', '-s', '-d', root, '-i', patch],
                          stdout=subprocess.PIPE, stderr=subprocess.STDOUT)
    return proc.returncode == 0, proc.stdout.decode()


def run_demo(root, sdir, meta):
    demo = meta.get('demo', 'demo.py')
    if not os.path.isfile(os.path.join(sdir, demo)):
        demo = 'demo.py'              # (a description instead of a name)
    path = os.path.join(sdir, demo)
    env = dict(os.environ, PYTHONPATH=os.path.join(root, 'lib', 'python'))
    if demo.endswith('_test.py'):
        cmd = ['/venv/bin/python', '-m', 'pytest', '-q', '-p',
               'no:cacheprovider', path]
    else:
        cmd = ['/venv/bin/python', path]
    proc = subprocess.run(cmd, env=env, cwd=root, stdout=subprocess.PIPE,
                          stderr=subprocess.STDOUT, timeout=600)
    return proc.returncode


def run_one(name, tier, demo):
    sdir = os.path.join(SEEDED, name)
    with open(os.path.join(sdir, 'meta.json')) as f:
        meta = json.load(f)
    prop = meta['property']
    root = scratch_tree()
    out = {'id': name, 'property': prop}
    try:
        if demo:
            out['demo_without_change_rc'] = run_demo(root, sdir, meta)
        ok, text = apply_patch(root, os.path.join(sdir, 'patch.diff'))
        if not ok:
            out['status'] = 'PATCH-DOES-NOT-APPLY'
            out['info'] = text[-500:]
            return out
        if demo:
            out['demo_with_change_rc'] = run_demo(root, sdir, meta)
        env = dict(os.environ)
        env['VERIF_REPO'] = root
        env['VERIF_OUT_DIR'] = os.path.join(root, 'out')
        env['VERIF_MINIMISE_S'] = '15'
        proc = subprocess.run([os.path.join(VERIF, 'vcheck'), prop, tier],
                              cwd=VERIF, env=env, stdout=subprocess.PIPE,
                              stderr=subprocess.STDOUT)
        text = proc.stdout.decode('utf-8', 'replace')
        sigs = sorted({line.split('signature:')[1].strip()
                       for line in text.splitlines() if 'signature:' in line})
        if proc.returncode == 1 and 'VIOLATION property=%s' % prop in text:
            out['status'] = 'CAUGHT'
        elif proc.returncode == 0:
            out['status'] = 'MISSED'
        else:
            out['status'] = 'ERROR rc=%d' % proc.returncode
            out['info'] = text[-1500:]
        out['signatures'] = sigs
        out['tier'] = tier
        return out
    finally:
        shutil.rmtree(root, ignore_errors=True)


def main(argv):
    tier = 'quick'
    demo = False
    names = []
    args = list(argv)
    while args:
        a = args.pop(0)
        if a == '--tier':
            tier = args.pop(0)
        elif a == '--demo':
            demo = True
        else:
            names.append(a)
    if not names:
        names = []
        for n in sorted(os.listdir(SEEDED)):
            mp = os.path.join(SEEDED, n, 'meta.json')
            if os.path.exists(mp):
                with open(mp) as f:
                    if not json.load(f).get('void_on_current_tree'):
                        names.append(n)
    results = []
    for name in names:
        res = run_one(name, tier, demo)
        results.append(res)
        with open(os.path.join(SEEDED, name, 'result.json'), 'w') as f:
            json.dump(dict(res, what_was_run=(
                'patch applied to a scratch copy of /repo/lib/python on '
                '/dev/shm; demo run without and with the change; '
                './vcheck %s %s with VERIF_REPO pointing at the copy' % (
                    res['property'], tier))), f, indent=1)
        print('%-28s %-6s %-8s %s %s' % (
            res['id'], res['property'], res['status'],
            ', '.join(res.get('signatures', []))[:150],
            ('demo rc without/with change: %s/%s' % (
                res.get('demo_without_change_rc'),
                res.get('demo_with_change_rc'))) if demo else ''))
        sys.stdout.flush()
    if not argv or (len(names) > 1):
        with open(os.path.join(SEEDED, 'last_results.json'), 'w') as f:
            json.dump(results, f, indent=1)
    return 0 if all(r['status'] == 'CAUGHT' for r in results) else 1


if __name__ == '__main__':
    sys.exit(main(sys.argv[1:]))
