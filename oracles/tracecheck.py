"""Oracle for C18 (archiving trace history never loses or prematurely archives).

Written from the property statement.  Nothing here calls the code under test:
the znode tree is read directly from the simulated server (`SimZk.nodes`), the
history snapshots are opened with zlib + sqlite3 (`deserialize`, no files), the
server's op log says which nodes were created / deleted in which phase of the
archiving run.  The second view (the repo's own `download_batch` /
`list_traces`) is supplied by the engine as callables and only ever *adds*
demands (an event the independent view finds in a snapshot must also be
returned by the real API).

Vocabulary
  kind      'trace' (/trace/<shard>/<inst>,<ts>,<src>,<type>,<data>),
            'finished' (/finished/<inst>, data + mtime),
            'server' (/server-trace/<shard>/<server>,<ts>,...)
  universe  what was live when the archiving run started (the "existed
            beforehand" of the statement) plus, for app events, what other
            actors published while the run was going on (server op log:
            creates under /trace/<shard>/ after the start of the run)
  moment of deletion
            the world may move while the archiver runs (instances are
            scheduled and finish, events are published, time passes between
            and during the ZooKeeper calls of one pass).  "Still scheduled"
            and "younger than the expiry" are therefore judged for every
            event that is no longer live at the moment it went: the server op
            log gives the order of every create / delete under /scheduled and
            under /trace (=> was the instance in /scheduled when the delete
            was applied); the engine notes the virtual time at which the
            archiver issues each of its ZooKeeper calls (`note_call`), so
            the time noted for the call that made the snapshot holding the
            event (if this run made it), else for the call that deleted it,
            is when the archiver acted on the event - an archiver that
            checks the age of an event before it acts on it, however long
            before, is never blamed (time only moves forward)
  exempt    app events deleted by the cron's two policy prunes
            (prune_trace_evictions / prune_trace_service_events): deliberate
            deletions that are not archiving
  allowed   snapshot nodes the keep-newest rule lets a history prune delete:
            all but the `max_count` highest sequence numbers present when the
            prune call starts
  accounted content of the `allowed` snapshots (legitimately dropped with them)

Clauses (first failing one is reported, deterministic order)
  snapshot-unreadable            an existing snapshot does not decompress/open
  snapshot-deleted-outside-prune a snapshot that existed before the run
                                 vanished although no prune of its kind had
                                 started (a snapshot created and removed again
                                 by the same pass is judged by losslessness)
  prune-kept-wrong-snapshots     a prune deleted a snapshot outside `allowed`,
                                 or completed without deleting all of `allowed`
  scheduled-instance-archived    event deleted from /trace while its instance
                                 was in /scheduled (at the moment of deletion)
  young-event-archived           event deleted from /trace while younger than
                                 the expiry (at the moment of deletion)
  young-finished-archived        finished record younger than the expiry gone
  event-lost / server-event-lost / finished-lost : not live, in no existing
                                 snapshot, not accounted
  event-not-retrievable-by-api / finished-not-listed-by-api : second view
"""

import bisect
import sqlite3
import zlib

TRACE = '/trace'
FINISHED = '/finished'
SERVER_TRACE = '/server-trace'
SCHEDULED = '/scheduled'

KINDS = ('trace', 'finished', 'server')
HIST = {'trace': '/trace.history', 'finished': '/finished.history',
        'server': '/server-trace.history'}
TABLE = {'trace': 'trace', 'finished': 'finished', 'server': 'server_trace'}

PHASES = ('prune_trace_evictions', 'prune_trace_service_events',
          'cleanup_trace', 'cleanup_finished', 'cleanup_trace_history',
          'cleanup_finished_history', 'cleanup_server_trace',
          'cleanup_server_trace_history')
PRUNE_OF = {'cleanup_trace_history': 'trace',
            'cleanup_finished_history': 'finished',
            'cleanup_server_trace_history': 'server'}
POLICY_PRUNES = ('prune_trace_evictions', 'prune_trace_service_events')

_DECODE_CACHE = {}


def decode(data, table):
    """Snapshot bytes -> tuple of rows (path, timestamp, data, directory,
    name), or None if unreadable.  Pure function of the bytes (cached)."""
    key = (table, data)
    hit = _DECODE_CACHE.get(key, 0)
    if hit != 0:
        return hit
    rows = _decode(data, table)
    if len(_DECODE_CACHE) > 5000:
        _DECODE_CACHE.clear()
    _DECODE_CACHE[key] = rows
    return rows


_SQLITE_MAGIC = b'SQLite format 3\x00'


def _decode(data, table):
    """Everything here parses bytes PRODUCED by the code under test: whatever
    goes wrong is a property of those bytes (=> None, reported as
    snapshot-unreadable), never a harness error."""
    try:
        raw = zlib.decompress(data)
    except (zlib.error, TypeError, ValueError):
        return None
    # sqlite3.deserialize raises MemoryError on b'' and accepts garbage
    # lazily: insist on a database header first
    if len(raw) < 100 or not raw.startswith(_SQLITE_MAGIC):
        return None
    try:
        conn = sqlite3.connect(':memory:')
        try:
            conn.deserialize(raw)
            rows = conn.execute(
                'SELECT path, timestamp, data, directory, name FROM %s'
                % table).fetchall()
        finally:
            conn.close()
    except (sqlite3.Error, MemoryError, OverflowError, ValueError,
            TypeError, UnicodeError):
        return None
    out = []
    for row in rows:
        # path / directory / name must be text for the row to identify
        # anything; other shapes make the snapshot unreadable
        if not isinstance(row[0], str) or not isinstance(row[4], str):
            return None
        out.append(tuple(row))
    return tuple(out)


def seqno(name):
    """Sequence number of a snapshot node name (written by the code under
    test through ZooKeeper's sequence flag); -1 if it has none."""
    tail = name[-10:]
    if len(tail) == 10 and tail.isdigit():
        return int(tail)
    return -1


def parse_event(name):
    """'<object>,<timestamp>,...' -> (object, float or None).  Event node
    names are written by the repo's publish(): an unparsable one is data,
    not a harness error (no expiry clause can apply to it)."""
    parts = name.split(',', 2)
    stamp = None
    if len(parts) >= 2:
        try:
            stamp = float(parts[1])
        except ValueError:
            stamp = None
        if stamp is not None and stamp != stamp:
            stamp = None
    return parts[0], stamp


def live_events(zk, root):
    """path -> event node name, for every event under every shard."""
    out = {}
    for shard in zk.children(root) or []:
        spath = root + '/' + shard
        for event in zk.children(spath) or []:
            out[spath + '/' + event] = event
    return out


def live_finished(zk):
    """instance -> (data bytes, mtime in ms)."""
    out = {}
    for inst in zk.children(FINISHED) or []:
        node = zk.nodes[FINISHED + '/' + inst]
        out[inst] = (node.data, node.mtime)
    return out


def snapshots(zk, kind):
    """snapshot node name -> data bytes."""
    out = {}
    for name in zk.children(HIST[kind]) or []:
        out[name] = zk.nodes[HIST[kind] + '/' + name].data
    return out


class ArchiveState:
    """What the oracle remembers about one archiving run."""

    def __init__(self, zk, params, now):
        self.params = params
        self.t_start = now
        self.oplog_start = len(zk.oplog)
        trace = {}
        for path, name in live_events(zk, TRACE).items():
            inst, stamp = parse_event(name)
            trace[path] = (inst, stamp, name)
        server = {}
        for path, name in live_events(zk, SERVER_TRACE).items():
            server[path] = (parse_event(name)[0], name)
        self.universe = {'trace': trace, 'server': server,
                         'finished': live_finished(zk)}
        self.scheduled = set(zk.children(SCHEDULED) or [])
        self.snaps_start = {kind: set(snapshots(zk, kind)) for kind in KINDS}
        self.exempt = set()
        self.allowed = {kind: set() for kind in KINDS}
        self.accounted = {kind: set() for kind in KINDS}
        self.at_prune_start = {kind: set() for kind in KINDS}
        self.prune_started = {kind: False for kind in KINDS}
        self.prune_done = {kind: False for kind in KINDS}
        self.t_begin = {}
        self.t_end = {}
        self.phase = None
        self.phase_oplog = self.oplog_start
        self.phases_done = 0
        self.outcome = None       # None while running, then 'complete',
        #                           'crash', 'died', 'raised'
        # the world while the run is going on (scan(), note_call())
        self.scan_pos = self.oplog_start
        self.sched_now = set(self.scheduled)
        self.published = {}       # path -> (inst, stamp, name), made meanwhile
        self.deleted = {}         # path -> (oplog index, instance scheduled
        #                           when the delete was applied)
        self.snap_made = {}       # trace snapshot name -> oplog index
        self.mark_idx = []        # oplog length / virtual time before every
        self.mark_time = []       # ZooKeeper call of the archiver

    def note_call(self, zk, now):
        """The archiver issues a ZooKeeper call at time `now` (whatever the
        call takes comes on top)."""
        self.mark_idx.append(len(zk.oplog))
        self.mark_time.append(now)

    def scan(self, zk):
        """Follow the server op log: who was in /scheduled when which event
        was deleted, which events were published meanwhile."""
        oplog = zk.oplog
        sched = self.sched_now
        start = self.universe['trace']
        pre_sched = len(SCHEDULED) + 1
        pre_hist = HIST['trace'] + '/'
        for idx in range(self.scan_pos, len(oplog)):
            entry = oplog[idx]
            path = entry[3]
            if path.startswith(pre_hist):
                if entry[2] == 'create':
                    self.snap_made.setdefault(path[len(pre_hist):], idx)
            elif path.startswith(TRACE + '/'):
                if path.count('/') != 3:
                    continue
                if entry[2] == 'create':
                    self.deleted.pop(path, None)
                    if path not in start:
                        name = path[path.rfind('/') + 1:]
                        inst, stamp = parse_event(name)
                        self.published[path] = (inst, stamp, name)
                elif entry[2] in ('delete', 'expire'):
                    inst = parse_event(path[path.rfind('/') + 1:])[0]
                    self.deleted[path] = (idx, inst in sched)
            elif path.startswith(SCHEDULED + '/'):
                inst = path[pre_sched:]
                if '/' in inst:
                    continue
                if entry[2] == 'create':
                    sched.add(inst)
                elif entry[2] in ('delete', 'expire'):
                    sched.discard(inst)
        self.scan_pos = len(oplog)

    def time_of(self, idx):
        """Lower bound of the virtual time at which oplog entry `idx` was
        applied (the time noted before the archiver's call that made it);
        None if the archiver made no call before it."""
        pos = bisect.bisect_right(self.mark_idx, idx) - 1
        if pos < 0:
            return None
        return self.mark_time[pos]

    def max_count(self, kind):
        # the cron passes trace_history_max_count to the server-trace prune
        return self.params['max_f'] if kind == 'finished' \
            else self.params['max_t']

    def begin_phase(self, phase, zk, now):
        self.phase = phase
        self.phase_oplog = len(zk.oplog)
        self.t_begin[phase] = now
        kind = PRUNE_OF.get(phase)
        if kind is None:
            return
        snaps = snapshots(zk, kind)
        names = sorted(snaps, key=lambda n: (seqno(n), n))
        extra = len(names) - self.max_count(kind)
        self.prune_started[kind] = True
        self.at_prune_start[kind] = set(names)
        if extra <= 0:
            return
        for name in names[:extra]:
            self.allowed[kind].add(name)
            rows = decode(snaps[name], TABLE[kind])
            for row in rows or ():
                self.accounted[kind].add(
                    row[4] if kind == 'finished' else row[0])

    def end_phase(self, phase, zk, now, complete):
        self.t_end[phase] = now
        if phase in POLICY_PRUNES:
            for entry in zk.oplog[self.phase_oplog:]:
                if entry[2] == 'delete' and entry[3].startswith(TRACE + '/'):
                    self.exempt.add(entry[3])
        if complete:
            self.phases_done += 1
            kind = PRUNE_OF.get(phase)
            if kind is not None:
                self.prune_done[kind] = True

    def created(self, zk, kind):
        prefix = HIST[kind] + '/'
        out = set()
        for entry in zk.oplog[self.oplog_start:]:
            if entry[2] == 'create' and entry[3].startswith(prefix):
                out.add(entry[3][len(prefix):])
        return out


def _viol(sig, detail):
    return {'sig': sig, 'detail': detail}


def evaluate(st, zk, api, now):
    """-> (violation or None, stats).  `api` offers download(kind, snapshot
    name, data, object name) -> list of event names and list_finished() ->
    list of instance names, both running the repository's readers; either may
    raise (reported)."""
    mode = 'complete' if st.outcome in (None, 'complete') else 'crash'
    stats = {'archived': 0, 'kept_young': 0, 'kept_scheduled': 0,
             'both_live_and_archived': 0, 'pruned': 0, 'created': 0,
             'finished_archived': 0, 'server_archived': 0, 'exempt': 0,
             'rolled_back': 0}

    # -- snapshots: readable; only pruning removes them, by the rule
    contents = {}
    existing = {}
    for kind in KINDS:
        snaps = snapshots(zk, kind)
        existing[kind] = snaps
        where = {}
        for name in sorted(snaps, key=lambda n: (seqno(n), n)):
            if seqno(name) < 0:
                return _viol('C18:snapshot-unreadable',
                             '%s/%s: node name carries no 10-digit sequence '
                             'number' % (HIST[kind], name)), stats
            rows = decode(snaps[name], TABLE[kind])
            if rows is None:
                return _viol('C18:snapshot-unreadable',
                             '%s/%s (%d bytes) does not decompress into an '
                             'sqlite database with table %s' % (
                                 HIST[kind], name, len(snaps[name]),
                                 TABLE[kind])), stats
            for row in rows:
                key = row[4] if kind == 'finished' else row[0]
                where.setdefault(key, []).append((name, row))
        contents[kind] = where
        created = st.created(zk, kind)
        stats['created'] += len(created)
        known = st.snaps_start[kind] | created
        missing = known - set(snaps)
        stats['pruned'] += len(missing)
        # A snapshot made by this very pass and removed again before any
        # prune of its kind looked at the directory (an upload rolled back by
        # the archiver) is not by itself forbidden by the statement: whether
        # something was lost with it is decided by the losslessness clauses
        # below.  Snapshots that existed beforehand, or that a prune found,
        # may only go by the keep-newest rule.
        bad = sorted(name for name in missing - st.allowed[kind]
                     if name in st.snaps_start[kind] or
                     name in st.at_prune_start[kind])
        stats['rolled_back'] += len(missing - st.allowed[kind]) - len(bad)
        if bad:
            if not st.prune_started[kind]:
                return _viol('C18:snapshot-deleted-outside-prune',
                             '%s: %s existed before the archiving run and '
                             'were deleted although no history prune of that '
                             'kind had started' % (HIST[kind], bad)), stats
            return _viol('C18:prune-kept-wrong-snapshots',
                         '%s: deleted %s; max_count=%d, present when the '
                         'prune started: may delete only %s' % (
                             HIST[kind], bad, st.max_count(kind),
                             sorted(st.allowed[kind]))), stats
        if st.prune_done[kind]:
            left = sorted(st.allowed[kind] & set(snaps))
            if left:
                return _viol('C18:prune-kept-wrong-snapshots',
                             '%s: prune completed with max_count=%d but %s '
                             'still exist (%d snapshots left)' % (
                                 HIST[kind], st.max_count(kind), left,
                                 len(snaps))), stats

    # -- app trace events
    st.scan(zk)
    live = live_events(zk, TRACE)
    t_ref = st.t_end.get('cleanup_trace', now)
    expiry = st.params['expiry_t']
    universe = st.universe['trace']
    if st.published:
        universe = dict(universe)
        universe.update(st.published)
    stats['published_meanwhile'] = len(st.published)
    stats['archived_published_meanwhile'] = 0
    for path in sorted(universe):
        inst, stamp, name = universe[path]
        if path in st.exempt:
            stats['exempt'] += 1
            continue
        is_live = path in live
        found = [(snap, row) for snap, row in
                 contents['trace'].get(path, ()) if row[4] == name]
        if is_live:
            if inst in st.sched_now:
                stats['kept_scheduled'] += 1
            elif stamp is not None and stamp >= t_ref - expiry:
                stats['kept_young'] += 1
        else:
            # judged at the moment the event was deleted from /trace
            meanwhile = ' (published while the run was going on)' \
                if path in st.published else ''
            rec = st.deleted.get(path)
            if rec is not None:
                was_scheduled = rec[1]
                t_del = st.time_of(rec[0])
            else:
                was_scheduled = inst in st.scheduled
                t_del = None
            if t_del is None:
                t_del = t_ref
            # archived prematurely: young when the snapshot that took it was
            # made (if this run made it), at the latest when it was deleted
            for snap, _row in found:
                if snap in st.snap_made:
                    t_snap = st.time_of(st.snap_made[snap])
                    if t_snap is not None and t_snap < t_del:
                        t_del = t_snap
            if was_scheduled:
                return _viol('C18:scheduled-instance-archived',
                             '%s%s: instance %s was in /scheduled when the '
                             'event was deleted from /trace (about %r; in '
                             '/scheduled when the run started: %s, now: %s; '
                             'snapshots holding the event: %s)'
                             % (path, meanwhile, inst, t_del,
                                inst in st.scheduled, inst in st.sched_now,
                                [s for s, _r in found])), stats
            if stamp is not None and stamp >= t_del - expiry:
                return _viol('C18:young-event-archived',
                             '%s%s: timestamp %r, archived / deleted from '
                             '/trace at %r, expiry %r: %.6f s younger than '
                             'the expiry then (snapshots holding it: %s)' % (
                                 path, meanwhile, stamp, t_del, expiry,
                                 stamp - (t_del - expiry),
                                 [s for s, _r in found])), stats
        if is_live:
            if found:
                stats['both_live_and_archived'] += 1
            continue
        if not found:
            if path in st.accounted['trace']:
                continue
            return _viol('C18:event-lost:' + mode,
                         '%s %s; now neither '
                         'live nor in any snapshot of %s (phase %s, %s)' % (
                             path, 'was published while the archiving run '
                             'was going on' if path in st.published else
                             'existed before the archiving run',
                             HIST['trace'], st.phase,
                             st.outcome or 'running')), stats
        stats['archived'] += 1
        if path in st.published:
            stats['archived_published_meanwhile'] += 1
        snap = found[0][0]
        try:
            names = api.download('trace', snap, existing['trace'][snap], inst)
        except Exception as err:  # pylint: disable=broad-except
            return _viol('C18:event-not-retrievable-by-api',
                         'download_batch(%s, name=%s) raised %r' % (
                             snap, inst, err)), stats
        if name not in names:
            return _viol('C18:event-not-retrievable-by-api',
                         '%s is a row of %s/%s but download_batch(name=%s) '
                         'returned %d rows without it' % (
                             name, HIST['trace'], snap, inst,
                             len(names))), stats

    # -- finished records
    live_fin = live_finished(zk)
    t_ref = st.t_end.get('cleanup_finished', now)
    expiry = st.params['expiry_f']
    listed = None
    for inst in sorted(st.universe['finished']):
        data, mtime = st.universe['finished'][inst]
        is_live = inst in live_fin
        text = data.decode('utf-8', 'replace') if data is not None else None
        found = [(snap, row) for snap, row in
                 contents['finished'].get(inst, ())
                 if row[0] == FINISHED + '/' + inst and row[2] == text]
        if mtime / 1000.0 >= t_ref - expiry and not is_live:
            return _viol('C18:young-finished-archived',
                         '%s/%s: last modified %r, archive call ended at %r, '
                         'expiry %r: younger than the expiry, not live '
                         '(snapshots holding it: %s)' % (
                             FINISHED, inst, mtime / 1000.0, t_ref, expiry,
                             [s for s, _r in found])), stats
        if is_live:
            continue
        if not found:
            if inst in st.accounted['finished']:
                continue
            other = [(s, r[2]) for s, r in
                     contents['finished'].get(inst, ())]
            return _viol('C18:finished-lost:' + mode,
                         '%s/%s (%r) existed before the archiving run; now '
                         'neither live nor recorded with its data in a '
                         'snapshot (rows under that name: %s; phase %s, %s)'
                         % (FINISHED, inst, text, other, st.phase,
                            st.outcome or 'running')), stats
        stats['finished_archived'] += 1
        if listed is None:
            try:
                listed = set(api.list_finished())
            except Exception as err:  # pylint: disable=broad-except
                return _viol('C18:finished-not-listed-by-api',
                             'list_traces raised %r' % (err,)), stats
        if inst not in listed:
            return _viol('C18:finished-not-listed-by-api',
                         '%s is a row of %s/%s but list_traces does not '
                         'return it' % (inst, HIST['finished'],
                                        found[0][0])), stats

    # -- server trace events (no expiry, no scheduled clause)
    live = live_events(zk, SERVER_TRACE)
    for path in sorted(st.universe['server']):
        server, name = st.universe['server'][path]
        if path in live:
            continue
        found = [(snap, row) for snap, row in
                 contents['server'].get(path, ()) if row[4] == name]
        if not found:
            if path in st.accounted['server']:
                continue
            return _viol('C18:server-event-lost:' + mode,
                         '%s existed before the archiving run; now neither '
                         'live nor in any snapshot of %s (phase %s, %s)' % (
                             path, HIST['server'], st.phase,
                             st.outcome or 'running')), stats
        stats['server_archived'] += 1
        snap = found[0][0]
        try:
            names = api.download('server', snap, existing['server'][snap],
                                 server)
        except Exception as err:  # pylint: disable=broad-except
            return _viol('C18:event-not-retrievable-by-api',
                         'download_batch(%s, name=%s) raised %r' % (
                             snap, server, err)), stats
        if name not in names:
            return _viol('C18:event-not-retrievable-by-api',
                         '%s is a row of %s/%s but download_batch(name=%s) '
                         'returned %d rows without it' % (
                             name, HIST['server'], snap, server,
                             len(names))), stats
    return None, stats
