"""allocsim: the real reservation API under seeded request histories (C19).

System under simulation: `treadmill.api.allocation.API()` - `reservation.create
/ update / delete / get`, `create / delete / list` of allocations,
`_check_capacity` and its helpers, the JSON-schema validation of
`treadmill.schema`, and beneath it the real `treadmill.admin.ldapbackend.
AdminLdapBackend` -> `admin.WrappedAdmin` -> `admin._ldap.Admin` with the real
`CellAllocation / Partition / Allocation / Tenant / Cell` encode/decode.

Simulated: the LDAP server.  Only the five wire methods of the `_ldap.Admin`
instance (`paged_search, search, add, modify, delete`) are replaced by an
in-memory entry store (`MemDirectory`) that speaks the ldap3 result format and
raises ldap3's own result exceptions.

There is no clock and no concurrency in this property; what the simulation
contributes is the history quantifier: sequences of requests against state.
Every response is compared with the reference model in oracles/alloccheck.py;
the model's "other reservations" are what is stored, read back through the API
after every op, and after every accepted request the C19 condition is evaluated
once more on the stored reservation.
"""

import copy
import inspect
import os
import re
import traceback
import warnings

import simkit
from simkit import engine as enginemod
from simkit import log as logmod
from simkit import rng as rngmod

# -- environment shims (harness process only, nothing under /repo changes)
import decorator
if not hasattr(decorator, 'getargspec'):
    # removed in decorator 5; treadmill.schema.schema needs it
    decorator.getargspec = inspect.getfullargspec

with warnings.catch_warnings():
    warnings.simplefilter('ignore')
    import jsonschema
    import ldap3
    import ldap3.core.exceptions as ldap_exc
    from treadmill import context
    from treadmill import exc as tm_exc
    from treadmill.admin import exc as admin_exc
    from treadmill.admin import ldapbackend
    from treadmill.api import allocation as alloc_api

from oracles import alloccheck
from oracles.alloccheck import DIMS, Model

SUFFIX = 'dc=sim'
ROOT_OU = 'ou=treadmill,' + SUFFIX
K = 1 << 10
M = 1 << 20
G = 1 << 30
UNIT = {'cpu': 1, 'memory': K, 'disk': K}
_THIS_FILE = os.path.abspath(__file__)


# ---------------------------------------------------------------------------
# in-memory directory beneath admin._ldap.Admin

def _ldap_error(code, description, dn, rtype):
    # LDAPOperationResult.__new__ picks the subclass for the result code,
    # exactly as ldap3 does for a server response.
    return ldap_exc.LDAPOperationResult(
        result=code, description=description, dn=dn, message='',
        response_type=rtype)


_FILTER_CACHE = {}


def _parse_filter(text):
    node = _FILTER_CACHE.get(text)
    if node is None:
        node, pos = _parse_node(text, 0)
        if pos != len(text):
            raise simkit.HarnessError('bad LDAP filter %r' % text)
        _FILTER_CACHE[text] = node
    return node


def _parse_node(text, i):
    if text[i] != '(':
        raise simkit.HarnessError('bad LDAP filter %r' % text)
    char = text[i + 1]
    if char in '&|':
        i += 2
        kids = []
        while text[i] == '(':
            kid, i = _parse_node(text, i)
            kids.append(kid)
        if text[i] != ')':
            raise simkit.HarnessError('bad LDAP filter %r' % text)
        return ('and' if char == '&' else 'or', kids), i + 1
    if char == '!':
        kid, i = _parse_node(text, i + 2)
        if text[i] != ')':
            raise simkit.HarnessError('bad LDAP filter %r' % text)
        return ('not', kid), i + 1
    j = text.index(')', i)
    attr, sep, value = text[i + 1:j].partition('=')
    if not sep or attr[-1:] in '<>~:':
        raise simkit.HarnessError('unsupported LDAP filter %r' % text)
    attr = attr.lower()
    if value == '*':
        return ('present', attr), j + 1
    if '*' in value:
        rex = re.compile(
            '^' + '.*'.join(re.escape(p) for p in value.split('*')) + '$')
        return ('substr', attr, rex), j + 1
    return ('eq', attr, value), j + 1


def _values(entry, attr):
    out = []
    for name, vals in entry.items():
        if name.split(';', 1)[0].lower() == attr:
            out.extend(vals)
    return out


def _match(node, entry):
    kind = node[0]
    if kind == 'and':
        return all(_match(kid, entry) for kid in node[1])
    if kind == 'or':
        return any(_match(kid, entry) for kid in node[1])
    if kind == 'not':
        return not _match(node[1], entry)
    vals = _values(entry, node[1])
    if kind == 'present':
        return bool(vals)
    if kind == 'substr':
        return any(node[2].match(v) for v in vals)
    if node[1] == 'objectclass':
        want = node[2].lower()
        return any(v.lower() == want for v in vals)
    return node[2] in vals


def _to_text(value):
    if isinstance(value, bool):
        return 'TRUE' if value else 'FALSE'
    if isinstance(value, bytes):
        return value.decode('utf-8')
    return str(value)


class MemDirectory:
    """LDAP-entry store: dn -> {attribute description: [str, ...]}.

    Models what the code above relies on: BASE/LEVEL/SUBTREE search with
    and/or/not/equality/presence/substring filters, attribute selection
    (attribute options are returned with their base attribute), add (parent
    must exist, no duplicates), modify (add/replace/delete), delete (leaf
    only), and the result codes 32/68/20/16/66 as ldap3 exceptions.  The
    paged search raises lazily (on first iteration), as ldap3's generator
    does.  Distinguished names and values are compared exactly (the harness
    only generates lower-case names); objectClass values ignore case.
    """

    def __init__(self):
        self.entries = {}
        self.counts = {'search': 0, 'add': 0, 'modify': 0, 'delete': 0}
        for dn, attrs in (
                (SUFFIX, {'objectClass': ['dcObject'], 'dc': ['sim']}),
                (ROOT_OU, {'objectClass': ['organizationalUnit'],
                           'ou': ['treadmill']}),
                ('ou=cells,' + ROOT_OU,
                 {'objectClass': ['organizationalUnit'], 'ou': ['cells']}),
                ('ou=allocations,' + ROOT_OU,
                 {'objectClass': ['organizationalUnit'],
                  'ou': ['allocations']})):
            self.entries[dn] = attrs

    def install(self, admin):
        """Replace the five wire methods of an _ldap.Admin instance."""
        admin.paged_search = self.paged_search
        admin.search = self.search
        admin.add = self.add
        admin.modify = self.modify
        admin.delete = self.delete

    # -- search
    def _search(self, base, flt, scope, attributes):
        self.counts['search'] += 1
        if base is None:
            base = ROOT_OU
        if flt is None:
            flt = '(objectClass=*)'
        if attributes is None:
            attributes = ['*', '+']
        if base not in self.entries:
            raise _ldap_error(32, 'noSuchObject', base, 'searchResDone')
        node = _parse_filter(flt)
        want_all = '*' in attributes
        wanted = frozenset(a.lower() for a in attributes)
        tail = ',' + base
        out = []
        for dn, entry in self.entries.items():
            if scope == ldap3.BASE:
                inside = dn == base
            elif scope == ldap3.LEVEL:
                inside = dn.endswith(tail) and ',' not in dn[:-len(tail)]
            else:
                inside = dn == base or dn.endswith(tail)
            if not inside or not _match(node, entry):
                continue
            attrs = {}
            for name, vals in entry.items():
                if want_all or name.split(';', 1)[0].lower() in wanted:
                    attrs[name] = list(vals)
            out.append({
                'dn': dn,
                'attributes': attrs,
                'raw_attributes': {name: [v.encode('utf-8') for v in vals]
                                   for name, vals in attrs.items()},
                'type': 'searchResEntry',
            })
        return out

    def search(self, search_base=None, search_filter=None,
               search_scope=ldap3.SUBTREE, attributes=None, dirty=False):
        del dirty
        return iter(self._search(search_base, search_filter, search_scope,
                                 attributes))

    def paged_search(self, search_base=None, search_filter=None,
                     search_scope=ldap3.SUBTREE, attributes=None,
                     dirty=False):
        del dirty

        def _pages():
            for item in self._search(search_base, search_filter,
                                     search_scope, attributes):
                yield item
        return _pages()

    # -- updates
    def add(self, dn, object_class=None, attributes=None):
        self.counts['add'] += 1
        if dn in self.entries:
            raise _ldap_error(68, 'entryAlreadyExists', dn, 'addResponse')
        parent = dn.split(',', 1)[1] if ',' in dn else ''
        if parent not in self.entries:
            raise _ldap_error(32, 'noSuchObject', dn, 'addResponse')
        entry = {}
        if object_class:
            entry['objectClass'] = (list(object_class)
                                    if isinstance(object_class, (list, tuple))
                                    else [object_class])
        for name in sorted(attributes or {}):
            vals = attributes[name]
            if not isinstance(vals, (list, tuple)):
                vals = [vals]
            vals = [_to_text(v) for v in vals]
            if len(set(vals)) != len(vals):
                raise _ldap_error(20, 'attributeOrValueExists', dn,
                                  'addResponse')
            if vals:
                entry[name] = vals
        self.entries[dn] = entry

    def modify(self, dn, changes):
        if not changes:
            return
        self.counts['modify'] += 1
        entry = self.entries.get(dn)
        if entry is None:
            raise _ldap_error(32, 'noSuchObject', dn, 'modifyResponse')
        new = {name: list(vals) for name, vals in entry.items()}
        for name, mods in changes.items():
            for mod, vals in mods:
                vals = [_to_text(v) for v in vals]
                stored = None
                for have in new:
                    if have.lower() == name.lower():
                        stored = have
                        break
                if mod == ldap3.MODIFY_ADD:
                    cur = new.get(stored, []) if stored else []
                    if set(cur) & set(vals) or len(set(vals)) != len(vals):
                        raise _ldap_error(20, 'attributeOrValueExists', dn,
                                          'modifyResponse')
                    new[stored or name] = cur + vals
                elif mod == ldap3.MODIFY_REPLACE:
                    if vals:
                        new[stored or name] = vals
                    elif stored:
                        del new[stored]
                elif mod == ldap3.MODIFY_DELETE:
                    if stored is None:
                        raise _ldap_error(16, 'noSuchAttribute', dn,
                                          'modifyResponse')
                    if vals:
                        for val in vals:
                            if val not in new[stored]:
                                raise _ldap_error(16, 'noSuchAttribute', dn,
                                                  'modifyResponse')
                            new[stored].remove(val)
                        if not new[stored]:
                            del new[stored]
                    else:
                        del new[stored]
                else:
                    raise simkit.HarnessError('modify op %r' % (mod,))
        self.entries[dn] = new

    def delete(self, dn):
        self.counts['delete'] += 1
        if dn not in self.entries:
            raise _ldap_error(32, 'noSuchObject', dn, 'delResponse')
        tail = ',' + dn
        for other in self.entries:
            if other.endswith(tail):
                raise _ldap_error(66, 'notAllowedOnNonLeaf', dn,
                                  'delResponse')
        del self.entries[dn]


# ---------------------------------------------------------------------------
# the world: real API over the in-memory directory, plus the reference model

_API = []


def _api():
    # The API object is stateless (it resolves context.GLOBAL.admin lazily on
    # every call); building the JSON-schema validators once per process is a
    # pure function of the code under test.
    if not _API:
        _API.append(alloc_api.API())
    return _API[0]


def canonical_size(nbytes):
    if nbytes and nbytes % G == 0:
        return '%dG' % (nbytes // G)
    if nbytes % M == 0:
        return '%dM' % (nbytes // M)
    return '%dK' % (nbytes // K)


class World:
    """Applies ops (all total) to the real API and to the model."""

    def __init__(self, config, prop, log):
        self.config = config
        self.prop = prop
        self.log = log
        self.model = Model()
        self.directory = MemDirectory()
        self.backend = ldapbackend.AdminLdapBackend(
            ['ldap://sim.invalid:389'], SUFFIX, user='cn=sim', password='sim')
        # pylint: disable=protected-access
        self.directory.install(self.backend._ldap_conn)
        self.api = _api()
        self.violation = None
        self.step = 0
        self.fps = []
        self.nontrivial = 0
        self.probes = {
            'accepted': 0, 'rejected': 0,
            'update_replacing': 0, 'update_moves_partition': 0,
            'trait_limited': 0, 'trait_limited_shared': 0, 'multi_trait': 0,
            'rejected_by_trait_limit_only': 0,
            'boundary_exact': 0, 'boundary_over_by_one_unit': 0,
            'missing_partition': 0, 'mixed_spelling': 0,
            'others_already_over_capacity': 0, 'zero_request': 0,
            'update_inherits_traits': 0, 'update_without_partition': 0,
            'stale_traits_stored': 0,
            'decimal_spelling_in_play': 0, 'lowercase_b_spelling_in_play': 0,
            'request_spelling_rejected_by_schema': 0,
            'create_of_existing': 0, 'create_of_existing_refused': 0,
            'deleted': 0, 'allocation_deleted_with_reservations': 0,
        }
        # counters that are zero by construction on a generated history
        # (ops are only skipped in sub-lists tried by the minimiser; an
        # update naming no partition is only *rejected as malformed* by a
        # tree whose schema requires one)
        self.extra = {'skipped_ops': 0, 'rejected_malformed': 0,
                      'accepted_but_not_listed': 0,
                      'create_of_existing_accepted': 0}
        self.faults = {
            'partition_missing_at_request': 0, 'partition_without_limits': 0,
            'reservation_without_traits': 0, 'partition_resized': 0,
            'partition_removed': 0, 'admin_written_reservation': 0,
        }
        self.cells = list(config['cells'])
        self.part_text = {}     # (cell, name) -> size spellings written
        self._synced = False
        # static universe, written through the real admin classes
        for cell in self.cells:
            self.backend.cell().create(cell, {'version': '1',
                                              'location': 'sim'})
        for tenant in config['tenants']:
            self.backend.tenant().create(tenant, {'systems': [1]})

    def fail(self, sig, detail):
        if self.violation is None:
            self.violation = {'sig': sig, 'detail': detail, 'step': self.step}

    # -- ops
    def apply(self, op):
        self._synced = False
        getattr(self, 'op_' + op['op'])(op)
        if self.violation is None and not self._synced:
            self._sync_state()
        self.fps.append(logmod.fingerprint(self.model.abstract()))

    def _skip(self, why):
        self.extra['skipped_ops'] += 1
        self.log.ev('skip', why)

    def op_set_partition(self, op):
        cell, name = op['cell'], op['name']
        if cell not in self.cells:
            return self._skip('no such cell')
        attrs = {'cpu': op['cpu'], 'memory': op['memory'],
                 'disk': op['disk'],
                 'limits': [dict(lim) for lim in op['limits']]}
        adm = self.backend.partition()
        if (cell, name) in self.model.parts:
            adm.update([name, cell], attrs)
            self.faults['partition_resized'] += 1
        else:
            adm.create([name, cell], attrs)
        part = Model.partition(op)
        self.model.parts[(cell, name)] = part
        self.part_text[(cell, name)] = [
            doc[dim] for doc in [op] + list(op['limits'])
            for dim in ('memory', 'disk')]
        # self-check of the directory fake + real encode/decode round trip
        back = adm.get([name, cell], dirty=True)
        if back is None or Model.partition(back) != part:
            raise simkit.HarnessError(
                'partition round trip: wrote %r read %r' % (op, back))
        self.log.ev('partition', cell, name, part)
        return None

    def op_del_partition(self, op):
        key = (op['cell'], op['name'])
        if key not in self.model.parts:
            return self._skip('no such partition')
        self.backend.partition().delete([op['name'], op['cell']])
        del self.model.parts[key]
        self.part_text.pop(key, None)
        self.faults['partition_removed'] += 1
        return None

    def op_add_alloc(self, op):
        alloc = op['alloc']
        tenant = alloc.split('/')[0]
        if alloc in self.model.allocs or tenant not in self.config['tenants']:
            return self._skip('allocation exists / no tenant')
        self.api.create(alloc, {'environment': op['env']})
        self.model.allocs.append(alloc)
        return None

    def op_del_alloc(self, op):
        alloc = op['alloc']
        if alloc not in self.model.allocs:
            return self._skip('no such allocation')
        self.api.delete(alloc)
        self.model.allocs.remove(alloc)
        gone = [key for key in self.model.res if key[0] == alloc]
        for key in gone:
            del self.model.res[key]
        if gone:
            self.probes['allocation_deleted_with_reservations'] += 1
        return None

    def _target(self, op):
        alloc, cell = op['id'].rsplit('/', 1)
        if alloc not in self.model.allocs or cell not in self.cells:
            return None
        return (alloc, cell)

    def op_admin_write(self, op):
        """A reservation written by the administrator, past the API (as
        `treadmill admin ldap allocation reserve` does): no capacity check."""
        key = self._target(op)
        if key is None or key in self.model.res:
            return self._skip('admin_write target')
        self.backend.cell_allocation().create([key[1], key[0]],
                                              copy.deepcopy(op['rsrc']))
        self.model.res[key] = Model.reservation(op['rsrc'])
        self.faults['admin_written_reservation'] += 1
        return None

    def op_delete(self, op):
        key = self._target(op)
        if key is None or key not in self.model.res:
            return self._skip('delete target')
        try:
            self.api.reservation.delete(op['id'])
        except simkit.HarnessError:
            raise
        except Exception as err:  # pylint: disable=broad-except
            return self._service_failure(err, 'delete', op)
        del self.model.res[key]
        self.probes['deleted'] += 1
        self.log.ev('out', 'deleted')
        return None

    def op_create(self, op):
        return self._request('create', op)

    def op_update(self, op):
        return self._request('update', op)

    # -- the property
    def _service_failure(self, err, kind, op):
        frames = traceback.extract_tb(err.__traceback__)
        last = frames[-1]
        if (os.path.abspath(last.filename) == _THIS_FILE and
                not isinstance(err, ldap_exc.LDAPExceptionError)):
            raise simkit.HarnessError('harness defect') from err
        where = '%s:%d in %s' % (
            last.filename.split('/lib/python/')[-1], last.lineno, last.name)
        self.log.ev('out', 'failure', type(err).__name__)
        self.fail('%s:service-failure:%s' % (self.prop, type(err).__name__),
                  '%s %s %r failed with %s: %s (raised at %s)' % (
                      kind, op['id'], op.get('rsrc'), type(err).__name__,
                      err, where))

    def _request(self, kind, op):
        key = self._target(op)
        if key is None or (kind == 'update' and key not in self.model.res):
            return self._skip('%s target' % kind)
        alloc, cell = key
        model = self.model
        probes = self.probes
        # a create for an allocation and cell that already hold a reservation
        # (a retried POST, two racing CLI calls): a full document, no merge
        existing = kind == 'create' and key in model.res
        via = ':via-create-of-existing' if existing else ''
        old = model.res.get(key) if kind == 'update' else None
        rsrc = op['rsrc']
        eff = Model.reservation(rsrc, old)
        bad = model.misfit(key, cell, eff)
        marginal = kind == 'update' and 'partition' not in rsrc
        # a decimal spelling in a request: the API's schema does not admit it
        offschema = any(is_decimal(rsrc[dim]) for dim in ('memory', 'disk')
                        if dim in rsrc)

        # reach probes / non-triviality (all from the model, before the call)
        part = model.parts.get((cell, eff['partition']))
        others = model.others(key, cell, eff['partition'])
        cons = model.constraints(key, cell, eff)
        if others:
            self.nontrivial += 1
        if part is None:
            probes['missing_partition'] += 1
            self.faults['partition_missing_at_request'] += 1
        elif not part['limits']:
            self.faults['partition_without_limits'] += 1
        if not eff['traits']:
            self.faults['reservation_without_traits'] += 1
        if len(cons) > 1:
            probes['trait_limited'] += 1
            if any(trait is not None and
                   any(trait in o['traits'] for o in others)
                   for _l, trait, _c, _u in cons):
                probes['trait_limited_shared'] += 1
        if len(cons) > 2:
            probes['multi_trait'] += 1
        if any(used[dim] > cap[dim] for _l, _t, cap, used in cons
               for dim in DIMS):
            probes['others_already_over_capacity'] += 1
        if all(eff[dim] == 0 for dim in DIMS):
            probes['zero_request'] += 1
        if any(dim in rsrc and rsrc[dim] != canonical_size(eff[dim])
               for dim in ('memory', 'disk')):
            probes['mixed_spelling'] += 1
        texts = list(self.part_text.get((cell, eff['partition']), [])) + [
            o['text'][dim] for o in others for dim in ('memory', 'disk')]
        if any(is_decimal(text) for text in texts):
            probes['decimal_spelling_in_play'] += 1
        if any(text.endswith('b') for text in texts):
            probes['lowercase_b_spelling_in_play'] += 1
        if kind == 'update':
            if marginal:
                probes['update_without_partition'] += 1
            if old['partition'] != eff['partition']:
                probes['update_moves_partition'] += 1
            if 'traits' not in rsrc and old['traits']:
                probes['update_inherits_traits'] += 1
            if bad is None and \
                    model.misfit(('', ''), cell, eff) is not None:
                probes['update_replacing'] += 1
        if bad is None:
            if any(eff[dim] and eff[dim] + used[dim] == cap[dim]
                   for _l, _t, cap, used in cons for dim in DIMS):
                probes['boundary_exact'] += 1
        else:
            if bad[3] - bad[4] <= UNIT[bad[1]]:
                probes['boundary_over_by_one_unit'] += 1
            if bad[0] == 'trait':
                probes['rejected_by_trait_limit_only'] += 1

        fn = self.api.reservation.create if kind == 'create' \
            else self.api.reservation.update
        try:
            # the API mutates the document it is given
            fn(op['id'], copy.deepcopy(rsrc))
            outcome = 'accepted'
        except simkit.HarnessError:
            raise
        except tm_exc.InvalidInputError as err:
            outcome = 'rejected'
            reason = str(err)
        except jsonschema.exceptions.ValidationError as err:
            outcome = 'invalid'
            reason = err.message
        except admin_exc.AlreadyExistsResult as err:
            if not existing:
                return self._service_failure(err, kind, op)
            outcome = 'exists'
        except Exception as err:  # pylint: disable=broad-except
            return self._service_failure(err, kind, op)
        self.log.ev('out', outcome, bad)
        if existing:
            probes['create_of_existing'] += 1
        if outcome == 'exists':
            # refused because the reservation exists: a rejected request
            probes['create_of_existing_refused'] += 1
            return None

        if outcome == 'accepted':
            probes['accepted'] += 1
            if existing:
                self.extra['create_of_existing_accepted'] += 1
            if bad is not None:
                return self._over_capacity(kind, op, bad, eff, others, via)
            # The C19 condition on what is now STORED (read back through the
            # API, parsed by the harness): the reservation just written,
            # counted with all others of its cell and partition.
            self._sync_state()
            rec = model.res.get(key)
            if rec is None:
                self.extra['accepted_but_not_listed'] += 1
                return None
            if rec['traits'] != eff['traits']:
                probes['stale_traits_stored'] += 1
            sbad = model.misfit(key, cell, rec)
            if sbad is not None:
                stale = (sbad[0] == 'trait' and sbad[2] in rec['traits'] and
                         sbad[2] not in eff['traits'])
                return self._over_capacity(
                    kind, op, sbad, rec,
                    model.others(key, cell, rec['partition']),
                    via or (':stale-traits' if stale else ''))
            return None

        if outcome == 'invalid' and offschema:
            # a spelling the API's schema does not admit: a rejected request
            probes['request_spelling_rejected_by_schema'] += 1
            return None
        if outcome == 'invalid' and marginal:
            # an update that names no partition: rejecting it as malformed
            # input is a legal answer
            self.extra['rejected_malformed'] += 1
            return None
        probes['rejected'] += 1
        if bad is None:
            return self.fail(
                '%s:rejected-although-fits' % self.prop,
                '%s %s %r rejected (%s: %s) although it fits: %r' % (
                    kind, op['id'], rsrc, outcome, reason,
                    [[label, trait, cap, used]
                     for label, trait, cap, used in cons]))
        return None

    def _over_capacity(self, kind, op, bad, rec, others, suffix):
        label, dim, trait, total, cap = bad
        self.fail(
            '%s:accepted-over-capacity:%s-%s%s' % (self.prop, label, dim,
                                                    suffix),
            '%s %s %r accepted although %s%s %s %s %d > %d (stored traits '
            '%r; others in cell %s partition %s: %r)' % (
                kind, op['id'], op['rsrc'], label,
                ' %s' % trait if trait else '', dim,
                'is' if suffix else 'would be', total, cap, rec['traits'],
                op['id'].rsplit('/', 1)[1], rec['partition'],
                [[o[d] for d in DIMS] + [o['traits']] for o in others]))

    def _sync_state(self):
        """The model's reservations := everything stored, as the API lists
        it (the others of a later request are what the directory holds)."""
        stored = {}
        for alloc in self.api.list():
            for res in alloc.get('reservations', []):
                alloc_id, cell = res['_id'].rsplit('/', 1)
                try:
                    stored[(alloc_id, cell)] = alloccheck.stored_record(res)
                except alloccheck.Unparsable as err:
                    raise simkit.HarnessError(
                        'stored reservation %r has a quantity the harness '
                        'cannot parse: %s' % (res, err))
        self.model.res = stored
        self._synced = True


# ---------------------------------------------------------------------------
# generation

OP_WEIGHTS = [
    ('create', 30), ('update', 30), ('delete', 7), ('set_partition', 4),
    ('del_partition', 1), ('add_alloc', 2), ('del_alloc', 1),
    ('admin_write', 2), ('recreate', 4),
]

CPU_CHOICES = [0, 50, 100, 100, 150, 200, 300, 400]
MEM_CHOICES = [0, 64 * M, 128 * M, 256 * M, 512 * M, G, G, 2 * G, 3 * G, 4 * G]
DISK_CHOICES = [0, 512 * M, G, 2 * G, 5 * G, 10 * G]


KD = 10 ** 3
MD = 10 ** 6
GD = 10 ** 9


def _letter_case(rng, suffix):
    x = rng.random()
    if x < 0.5:
        return suffix
    if x < 0.7:
        return suffix.lower()
    return ''.join(c.lower() if rng.random() < 0.5 else c for c in suffix)


def spell_size(rng, nbytes, decimal=False):
    """One of the exact spellings of the same quantity: '1G', '1024M',
    '1048576k', and with `decimal` also '3GB', '3000mb', '3000000Kb' ...
    (every letter in either case)."""
    units = []
    for suffix, mult in (('K', K), ('M', M), ('G', G)):
        if nbytes % mult == 0:
            units.append((suffix, mult))
    if decimal or not units:
        dec = [(suffix, mult)
               for suffix, mult in (('KB', KD), ('MB', MD), ('GB', GD))
               if nbytes % mult == 0]
        if decimal and dec:
            units = dec
        elif not units:
            units = dec
    if not units:
        raise simkit.HarnessError('no exact spelling of %d bytes' % nbytes)
    if rng.random() < 0.6:
        suffix, mult = units[-1]
    else:
        suffix, mult = rng.choice(units)
    return '%d%s' % (nbytes // mult, _letter_case(rng, suffix))


def spell(rng, dim, value, decimal=False):
    if dim == 'cpu':
        return '%d%%' % value
    return spell_size(rng, value, decimal)


def to_decimal(nbytes):
    """The decimal look-alike of a binary quantity (2G -> 2GB, 512M -> 512MB)."""
    return nbytes // G * GD + nbytes % G // M * MD


def is_decimal(text):
    return text[-1:] in 'bB'


class Generator:
    """Adaptive op generator: looks at the model, emits concrete ops."""

    def __init__(self, config, streams):
        self.config = config
        self.rng = rng = streams.get('gen')
        self.weights = [(k, w * config['wmul'].get(k, 1.0))
                        for k, w in OP_WEIGHTS]
        # the initial world is part of the recorded op list (so that the
        # minimiser shrinks it too)
        plan = []
        for cell in config['cells']:
            for name in config['part_names']:
                if rng.random() >= config['p_missing']:
                    plan.append(('set_partition', cell, name))
        for alloc in config['allocs']:
            plan.append(('add_alloc', alloc))
        for _ in range(config['n_seed']):
            plan.append(('admin_write',))
        self.plan = plan

    def next_op(self, world):
        if self.plan:
            item = self.plan.pop(0)
            if item[0] == 'set_partition':
                return self._partition(item[1], item[2])
            if item[0] == 'add_alloc':
                return {'op': 'add_alloc', 'alloc': item[1],
                        'env': self.rng.choice(['dev', 'qa', 'uat', 'prod'])}
            op = self.g_admin_write(world)
            if op is not None:
                return op
        for _ in range(20):
            kind = rngmod.weighted(self.rng, self.weights)
            op = getattr(self, 'g_' + kind)(world)
            if op is not None:
                return op
        return self.g_set_partition(world)

    # -- partitions
    def _partition(self, cell, name):
        rng = self.rng
        cfg = self.config
        cap = {'cpu': rng.choice(cfg['cap_cpu']),
               'memory': rng.choice(cfg['cap_mem']),
               'disk': rng.choice(cfg['cap_disk'])}
        # quantities written into the directory may be spelled in decimal
        # units (KB/MB/GB, any letter case) as well
        dec = {dim: dim != 'cpu' and rng.random() < cfg['p_decimal']
               for dim in DIMS}
        for dim in DIMS:
            if dec[dim]:
                cap[dim] = to_decimal(cap[dim])
        limits = []
        for trait in cfg['limited_traits']:
            if rng.random() < cfg['p_limits']:
                lim = {'trait': trait}
                for dim in DIMS:
                    frac = rng.choice([0, 0.25, 0.5, 0.5, 0.75, 1.0, 1.5])
                    ldec = dim != 'cpu' and rng.random() < cfg['p_decimal']
                    grain = 10 if dim == 'cpu' else (
                        100 * MD if ldec else 128 * M)
                    val = int(cap[dim] * frac) // grain * grain
                    lim[dim] = spell(rng, dim, val, ldec)
                limits.append(lim)
        rng.shuffle(limits)
        op = {'op': 'set_partition', 'cell': cell, 'name': name,
              'limits': limits}
        for dim in DIMS:
            op[dim] = spell(rng, dim, cap[dim], dec[dim])
        return op

    def g_set_partition(self, world):
        del world
        return self._partition(self.rng.choice(self.config['cells']),
                               self.rng.choice(self.config['part_names']))

    def g_del_partition(self, world):
        keys = sorted(world.model.parts)
        if not keys:
            return None
        cell, name = self.rng.choice(keys)
        return {'op': 'del_partition', 'cell': cell, 'name': name}

    # -- allocations
    def g_add_alloc(self, world):
        missing = [a for a in self.config['allocs']
                   if a not in world.model.allocs]
        if not missing:
            return None
        return {'op': 'add_alloc', 'alloc': self.rng.choice(missing),
                'env': self.rng.choice(['dev', 'qa', 'uat', 'prod'])}

    def g_del_alloc(self, world):
        if len(world.model.allocs) < 2:
            return None
        return {'op': 'del_alloc',
                'alloc': self.rng.choice(world.model.allocs)}

    # -- reservations
    def _free_ids(self, world):
        return [(alloc, cell) for alloc in world.model.allocs
                for cell in world.cells
                if (alloc, cell) not in world.model.res]

    def _traits(self):
        rng = self.rng
        pool = self.config['traits']
        if not pool:
            return []
        x = rng.random()
        if x < 0.35:
            count = 0
        elif x < 0.7:
            count = 1
        elif x < 0.9:
            count = 2
        else:
            count = len(pool)
        return rng.sample(pool, min(count, len(pool)))

    def _partition_choice(self, world, cell):
        rng = self.rng
        have = sorted(name for c, name in world.model.parts if c == cell)
        if have and rng.random() < 0.85:
            return rng.choice(have)
        return rng.choice(self.config['part_names'])

    def _sizes(self, world, key, partition, traits, p_decimal):
        """Request sizes by intent, looking at what the model says is free.
        Sizes are whole K (what the API's schema can express); with
        probability `p_decimal` a size is spelled in decimal units instead."""
        rng = self.rng
        free = world.model.free(key, key[1], partition, traits)
        room = {dim: max(free[dim], 0) // UNIT[dim] * UNIT[dim]
                for dim in DIMS}
        intent = rngmod.weighted(rng, self.config['intents'])
        size = {'cpu': rng.choice(CPU_CHOICES),
                'memory': rng.choice(MEM_CHOICES),
                'disk': rng.choice(DISK_CHOICES)}
        if intent == 'zero':
            size = {dim: 0 for dim in DIMS}
        elif intent == 'small':
            for dim in DIMS:
                part = room[dim] // rng.randint(2, 5)
                grain = 10 if dim == 'cpu' else 64 * M
                size[dim] = part // grain * grain
        elif intent in ('fill', 'over', 'under'):
            for dim in DIMS:
                grain = 10 if dim == 'cpu' else 64 * M
                size[dim] = min(size[dim], room[dim]) // grain * grain
            dims = [dim for dim in DIMS if rng.random() < 0.5] or \
                [rng.choice(DIMS)]
            for dim in dims:
                size[dim] = room[dim]
            edge = rng.choice(dims)
            if intent == 'over':
                size[edge] = room[edge] + UNIT[edge]
            elif intent == 'under':
                size[edge] = max(room[edge] - UNIT[edge], 0)
        out = {}
        for dim in DIMS:
            if dim != 'cpu' and rng.random() < p_decimal:
                out[dim] = spell(rng, dim, size[dim] // MD * MD, True)
            else:
                out[dim] = spell(rng, dim, size[dim])
        return out

    def _extras(self, rsrc):
        rng = self.rng
        if rng.random() < 0.2:
            rsrc['rank'] = rng.choice([0, 10, 50, 100])
        if rng.random() < 0.1:
            rsrc['rank_adjustment'] = rng.choice([0, 5, 10])

    def g_create(self, world, admin=False):
        rng = self.rng
        ids = self._free_ids(world)
        if not ids:
            return None
        key = rng.choice(ids)
        partition = self._partition_choice(world, key[1])
        traits = self._traits()
        rsrc = self._sizes(world, key, partition, traits,
                           self.config['p_decimal'] if admin
                           else self.config['p_req_decimal'])
        if admin or partition != alloccheck.DEFAULT_PARTITION or \
                rng.random() < 0.5:
            rsrc['partition'] = partition
        if traits or rng.random() < 0.3:
            rsrc['traits'] = traits
        self._extras(rsrc)
        return {'op': 'admin_write' if admin else 'create',
                'id': '%s/%s' % key, 'rsrc': rsrc}

    def g_admin_write(self, world):
        return self.g_create(world, admin=True)

    def g_recreate(self, world):
        """A create for an id that already holds a reservation, with or
        without the stored traits repeated, sized around the partition room
        and the room under the stored traits' limits."""
        rng = self.rng
        keys = sorted(world.model.res)
        if not keys:
            return None
        key = rng.choice(keys)
        old = world.model.res[key]
        partition = old['partition']
        if rng.random() < 0.1:
            partition = self._partition_choice(world, key[1])
        x = rng.random()
        if x < 0.4:
            traits, send = list(old['traits']), True
        elif x < 0.8:
            traits, send = [], False
        else:
            traits, send = self._traits(), True
        rsrc = self._sizes(world, key, partition, traits,
                           self.config['p_req_decimal'])
        if rng.random() < 0.5:
            # just over what the stored traits' limits leave, within what
            # the partition leaves
            model = world.model
            room = model.free(key, key[1], partition, [])
            troom = model.free(key, key[1], partition, old['traits'])
            for dim in DIMS:
                if rng.random() < 0.6:
                    val = min(max(troom[dim], 0) // UNIT[dim] * UNIT[dim] +
                              UNIT[dim] * rng.choice([1, 1, 64]),
                              max(room[dim], 0) // UNIT[dim] * UNIT[dim])
                    rsrc[dim] = spell(rng, dim, val)
        if partition != alloccheck.DEFAULT_PARTITION or rng.random() < 0.5:
            rsrc['partition'] = partition
        if send:
            rsrc['traits'] = traits
        self._extras(rsrc)
        return {'op': 'create', 'id': '%s/%s' % key, 'rsrc': rsrc}

    def g_update(self, world):
        rng = self.rng
        cfg = self.config
        keys = sorted(world.model.res)
        if not keys:
            return None
        key = rng.choice(keys)
        old = world.model.res[key]
        partition = old['partition']
        if rng.random() < 0.2:
            partition = self._partition_choice(world, key[1])
        x = rng.random()
        send_traits = True
        if x < 0.5:
            traits = list(old['traits'])
        elif old['traits'] and rng.random() < cfg['upd_omit_traits']:
            traits = list(old['traits'])    # what the result will carry
            send_traits = False
        else:
            traits = self._traits()
            if not traits and old['traits'] and not cfg['upd_empty_traits']:
                traits = list(old['traits'])
        if not traits and not old['traits'] and rng.random() < 0.5:
            send_traits = False
        rsrc = self._sizes(world, key, partition, traits,
                           cfg['p_req_decimal'])
        if not (partition == old['partition'] and
                rng.random() < cfg['upd_omit_partition']):
            rsrc['partition'] = partition
        if send_traits:
            rsrc['traits'] = traits
        self._extras(rsrc)
        return {'op': 'update', 'id': '%s/%s' % key, 'rsrc': rsrc}

    def g_delete(self, world):
        keys = sorted(world.model.res)
        if not keys:
            return None
        return {'op': 'delete', 'id': '%s/%s' % self.rng.choice(keys)}


def make_config(prop, tier, rng):
    del prop
    big = tier == 'thorough'
    cells = ['c1'] if rng.random() < 0.5 else ['c1', 'c2']
    part_names = ['_default'] + [p for p in ('p1', 'p2')
                                 if rng.random() < 0.45]
    limited = [t for t in ('ssd', 'gpu', 'arm') if rng.random() < 0.5]
    traits = list(limited)
    if rng.random() < 0.5:
        traits.append('misc')       # a trait no partition ever limits
    tenants = ['t1']
    if rng.random() < 0.4:
        tenants.append('t1:s1')
    if rng.random() < 0.4:
        tenants.append('t2')
    allocs = []
    for i in range(rng.randint(2, 8 if big else 6)):
        allocs.append('%s/a%d' % (rng.choice(tenants), i))
    if 't1:s1' in tenants and rng.random() < 0.6:
        # a top-level tenant whose id is the tail of a nested one
        tenants.append('s1')
    if len(tenants) > 1 and rng.random() < 0.6:
        # the same allocation name under several tenants
        for name in rng.sample(allocs, rng.randint(1, min(3, len(allocs)))):
            tenant, leaf = name.split('/')
            twin = '%s/%s' % (rng.choice([t for t in tenants
                                          if t != tenant]), leaf)
            if twin not in allocs:
                allocs.append(twin)
    tight = rng.random() < 0.6
    cfg = {
        'cells': cells,
        'part_names': part_names,
        'limited_traits': limited,
        'traits': traits,
        'tenants': tenants,
        'allocs': allocs,
        'p_missing': rng.choice([0.0, 0.0, 0.2, 0.5]),
        'p_limits': rng.choice([0.0, 0.5, 1.0, 1.0]),
        'n_seed': rng.choice([0, 0, 1, 2, 3]),
        'n_ops': rng.randint(10, 150 if big else 60),
        'cap_cpu': [0, 100, 200, 400] if tight else [400, 800, 1600],
        'cap_mem': [0, G, 2 * G, 4 * G] if tight
        else [4 * G, 8 * G + 512 * M, 16 * G],
        'cap_disk': [0, 2 * G, 5 * G, 10 * G] if tight
        else [10 * G, 20 * G, 50 * G + 100 * M],
        # updates that leave out 'traits' / send an empty list / leave out
        # 'partition' (all admitted by the schema the API declares)
        'upd_omit_traits': rng.choice([0.0, 0.0, 0.3]),
        'upd_empty_traits': rng.random() < 0.3,
        'upd_omit_partition': rng.choice([0.0, 0.0, 0.0, 0.15]),
        # decimal unit spellings (KB/MB/GB in any letter case): of what is
        # written into the directory (capacities, limits, administrator-
        # written reservations), and of requests (not admitted by the API's
        # schema: such a request is rejected as malformed)
        'p_decimal': rng.choice([0.0, 0.25, 0.5]),
        'p_req_decimal': rng.choice([0.0, 0.0, 0.05]),
    }
    cfg['intents'] = [
        ['random', rng.choice([20, 40])], ['small', rng.choice([10, 30])],
        ['fill', rng.choice([10, 20])], ['over', rng.choice([5, 15])],
        ['under', rng.choice([5, 10])], ['zero', 3]]
    wmul = {}
    for key, _w in OP_WEIGHTS:
        wmul[key] = rng.choice([0.0, 0.5, 1.0, 1.0, 2.0]) \
            if key not in ('create', 'update') else rng.choice([0.7, 1.0, 1.5])
    cfg['wmul'] = wmul
    return cfg


class AllocSim(enginemod.Engine):
    name = 'allocsim'
    serves = ('C19',)
    real_components = (
        'treadmill.api.allocation: API().reservation.create/update/delete/'
        'get, API().create/delete/list, _check_capacity, _check_limit, '
        '_calc_free, _calc_free_traits, _partition_get (real, unmodified)',
        'treadmill.schema JSON-schema validation of every request '
        '(reservation.json, allocation.json, common.json)',
        'treadmill.utils.cpu_units / size_to_bytes',
        'treadmill.admin.ldapbackend.AdminLdapBackend, admin.WrappedAdmin '
        '(exception translation), admin._ldap.Admin.get/create/update/'
        'delete/_diff_entries, admin._ldap.CellAllocation / Partition / '
        'Allocation / Tenant / Cell encode, decode, dn construction, queries',
        'context.GLOBAL.admin (its connection is the backend above)',
    )
    stub_components = (
        'LDAP server: the five wire methods of the _ldap.Admin instance '
        '(paged_search, search, add, modify, delete) are replaced by an '
        'in-memory entry store speaking the ldap3 result format and raising '
        'ldap3 result exceptions (exact-match DNs and values, no LDAP schema '
        'enforcement, no referrals, no replication delay)',
        'REST layer and authorization are not involved: the API object is '
        'called in-process',
        'decorator.getargspec shim (removed in decorator 5)',
    )

    def rule(self, prop):
        return ('seeded per-run universe (1-2 cells, 1-3 partition names some '
                'without a partition object, 0-3 limited traits, 2-6 '
                'allocations under 1-3 tenants) and op mix (swarm); the '
                'initial partitions/allocations/administrator-written '
                'reservations are the first recorded ops; then an adaptive '
                'generator issues create/update/delete requests whose sizes '
                'are drawn by intent (random, fraction of what is free, '
                'exactly what is free, one unit more, one unit less, zero), '
                'creates for ids that already hold a reservation (with and '
                'without the stored traits repeated, sized around the trait '
                'limits and the partition room), '
                'in mixed unit spellings (K/M/G in either case; capacities, '
                'limits and administrator-written reservations also in '
                'decimal KB/MB/GB with every letter in either case: gb, Gb, '
                'gB ...; a few requests too, which the API schema rejects), '
                'interleaved with partition '
                'resize/removal and allocation add/delete; every response of '
                'the real API is compared with the reference model (the '
                'merged request against the other reservations AS STORED, '
                'read back through API().list() after every op); after every '
                'accepted request the C19 condition is evaluated again on '
                'the stored reservation.  A run is distinct by the fingerprint of '
                'its recorded op list; non-trivial: a create/update request '
                'issued while the same cell and partition already holds at '
                'least one other reservation (the sum matters) '
                '(distinct_nontrivial counts distinct runs containing one)')

    def level(self, prop):
        return 'exploration'

    def assumptions(self, prop):
        return [
            '"fits" means request + sum(others) <= capacity in each of cpu, '
            'memory, disk (equality fits), against the partition and against '
            'each limited trait the resulting reservation carries; memory '
            'and disk are binary multiples (1G = 1024M = 1048576K) unless a '
            'B or b follows the unit letter, then decimal (1GB = 1gb = 1Gb = '
            '1000MB), in any letter case, as utils.size_to_bytes documents',
            'a request whose spelling the API schema does not admit (decimal '
            'units) may be rejected as malformed input whatever its size',
            'an update changes the fields it names and keeps the others; the '
            'expectation judges that merged request (an empty trait list '
            'means no traits); the other reservations count as they are '
            'stored, with whatever traits they carry',
            'after an accepted request the stored reservation itself must '
            'satisfy the condition; if it only fails for a trait the merged '
            'request did not have (old traits that an update could not '
            'clear) the signature carries :stale-traits; a stored state that '
            'merely differs from the request is a reach probe '
            '(stale_traits_stored), not a violation',
            'requests are atomic (no concurrent check-then-write of two API '
            'processes); no clock is involved, simulated seconds are 0',
            'a create for an id that already holds a reservation may be '
            'refused with AlreadyExistsResult (a rejected request) or with an '
            'input error; if it is accepted, the request and the reservation '
            'then stored must fit (signature suffix :via-create-of-existing); '
            'create is only sent when the allocation exists, update/delete '
            'only for an existing reservation (ops whose target is absent '
            'are no-ops); partition: null is not '
            'generated (its meaning is not settled by the statement)',
            'names are lower-case ASCII without LDAP special characters; the '
            'in-memory directory compares DNs and values exactly',
            'only the first violation of a run is reported',
        ]

    def quick_runs(self, prop):
        return 4000

    def make_config(self, prop, tier, rng):
        return make_config(prop, tier, rng)

    def execute(self, prop, config, seed, ops=None, keep_log=False):
        res = enginemod.Result()
        log = logmod.EventLog(keep=keep_log)
        log.ev('seed', seed, prop)
        admin_ctx = context.GLOBAL.admin
        # pylint: disable=protected-access
        saved = admin_ctx._conn
        try:
            world = World(config, prop, log)
            admin_ctx._conn = world.backend
            executed = []
            if ops is None:
                gen = Generator(config, rngmod.Streams(seed))
                budget = len(gen.plan) + config['n_ops']
                source = None
            else:
                gen = None
                budget = None
                source = iter(ops)
            n = 0
            while world.violation is None:
                if gen is not None:
                    if n >= budget:
                        break
                    op = gen.next_op(world)
                else:
                    op = next(source, None)
                    if op is None:
                        break
                n += 1
                world.step = n
                executed.append(op)
                log.ev('op', op)
                world.apply(op)
            res.ops = executed
            res.violation = world.violation
            res.steps = n
            res.sim_s = 0.0
            res.faults = world.faults
            res.probes = world.probes
            res.fps = world.fps
            res.nontrivial = world.nontrivial
            res.trace_fp = logmod.fingerprint(executed)
            res.extra = {'ldap_' + k: v
                         for k, v in world.directory.counts.items()}
            res.extra.update(world.extra)
            log.ev('final', world.model.abstract())
            if world.violation is not None:
                log.ev('violation', world.violation['sig'])
            res.digest = log.digest()
            res.log_lines = log.lines if keep_log else None
        finally:
            admin_ctx._conn = saved
        return res


ENGINE = AllocSim()
