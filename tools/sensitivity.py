"""Sensitivity self-test (DESIGN.md section 7).

Each mutant is a small, realistic change to the repository that breaks one
property.  It is applied to a scratch copy of the tree on /dev/shm (never to
/repo), the property's quick check is pointed at the copy with VERIF_REPO and
must exit 1 with a VIOLATION line; the copy is removed afterwards.

usage: python tools/sensitivity.py [Cxx ...] [--tier quick] [--keep-going]
"""

import json
import os
import shutil
import subprocess
import sys
import tempfile

HERE = os.path.dirname(os.path.abspath(__file__))
VERIF = os.path.dirname(HERE)
sys.path.insert(0, VERIF)

from mutants import MUTANTS  # noqa: E402


def run_mutant(mut, tier='quick', runs=None):
    root = tempfile.mkdtemp(prefix='tmverif-mut-', dir='/dev/shm')
    try:
        dst = os.path.join(root, 'lib', 'python')
        os.makedirs(dst)
        subprocess.check_call(['cp', '-r', '/repo/lib/python/treadmill', dst])
        shutil.copy('/repo/entry_points.txt', root)
        for rel, old, new in mut['edits']:
            path = os.path.join(root, rel)
            with open(path) as f:
                text = f.read()
            if text.count(old) != 1:
                return 'BROKEN-MUTANT (%d matches in %s)' % (text.count(old),
                                                             rel), ''
            with open(path, 'w') as f:
                f.write(text.replace(old, new))
        env = dict(os.environ)
        env['VERIF_REPO'] = root
        env['VERIF_OUT_DIR'] = os.path.join(root, 'out')
        if runs:
            env['VERIF_RUNS'] = str(runs)
        env['VERIF_MINIMISE_S'] = '10'
        proc = subprocess.run([os.path.join(VERIF, 'vcheck'), mut['prop'],
                               tier], cwd=VERIF, env=env,
                              stdout=subprocess.PIPE, stderr=subprocess.STDOUT)
        text = proc.stdout.decode('utf-8', 'replace')
        sigs = sorted({line.split('signature:')[1].strip()
                       for line in text.splitlines() if 'signature:' in line})
        if proc.returncode == 1 and 'VIOLATION property=%s' % mut['prop'] in text:
            return 'CAUGHT', ', '.join(sigs)
        if proc.returncode == 0:
            return 'MISSED', ''
        return 'ERROR rc=%d' % proc.returncode, text[-1500:]
    finally:
        shutil.rmtree(root, ignore_errors=True)


def main(argv):
    props = [a for a in argv if not a.startswith('--')]
    results = []
    bad = 0
    for mut in MUTANTS:
        if props and mut['prop'] not in props and mut['name'] not in props:
            continue
        status, info = run_mutant(mut)
        print('%-6s %-34s %-8s %s' % (mut['prop'], mut['name'], status, info))
        sys.stdout.flush()
        results.append({'prop': mut['prop'], 'name': mut['name'],
                        'status': status, 'info': info})
        if status != 'CAUGHT':
            bad += 1
    out = os.path.join(VERIF, 'mutants', 'last_results.json')
    if not props:
        with open(out, 'w') as f:
            json.dump(results, f, indent=1)
    print('%d mutants, %d not caught' % (len(results), bad))
    return 1 if bad else 0


if __name__ == '__main__':
    sys.exit(main(sys.argv[1:]))
