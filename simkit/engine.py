"""Engine protocol shared by all simulation engines."""


class Result:
    """Outcome of one simulated run."""

    __slots__ = ('ops', 'violation', 'digest', 'steps', 'sim_s', 'faults',
                 'probes', 'fps', 'nontrivial', 'trace_fp', 'log_lines',
                 'extra')

    def __init__(self):
        self.ops = []            # recorded concrete op list (replayable)
        self.violation = None    # None or {'sig':..., 'detail':..., 'step':...}
        self.digest = ''         # event-log digest
        self.steps = 0           # ops executed
        self.sim_s = 0.0         # simulated seconds covered
        self.faults = {}         # fault kind -> times it actually fired
        self.probes = {}         # reach probe -> count
        self.fps = []            # abstract-state fingerprints seen
        self.nontrivial = 0      # count by the property's stated rule
        self.trace_fp = 0        # fingerprint of the whole op/fault trace
        self.log_lines = None
        self.extra = {}


class Engine:
    """Base class.  An engine runs real repo code under the simulator."""

    name = ''
    serves = ()
    real_components = ()
    stub_components = ()

    def rule(self, prop):
        """Text: how cases are generated and what makes one non-trivial."""
        raise NotImplementedError

    def level(self, prop):
        return 'exploration'

    def assumptions(self, prop):
        return []

    def irrelevant_probes(self, prop):
        """Reach probes that cannot fire for this property (not reported as
        stuck at zero)."""
        return ()

    def quick_runs(self, prop):
        """Number of runs of the quick tier."""
        return 400

    def make_config(self, prop, tier, rng):
        """Per-run swarm configuration (JSON-able), drawn from `rng`."""
        raise NotImplementedError

    def execute(self, prop, config, seed, ops=None, keep_log=False):
        """Run once.  ops=None: generate adaptively from `seed`;
        ops=list: replay exactly (no PRNG is consulted)."""
        raise NotImplementedError

    def shrink_candidates(self, config, ops):
        """Optional: yield (config', ops') simplifications to try after ddmin."""
        return ()
