"""C13 mutants for the tree AFTER the candidate fixes fix-1..fix-4 are applied.

`/verif/mutants/node.py` is written against the current (unfixed) tree; two of
its anchors are rewritten by fix-2 / fix-3 and five more mutants only make
sense once the fixes exist (they remove them again).  When the fixes are
committed, replace MUTANTS of mutants/node.py by this list.
"""

import importlib.util
import os

_HERE = os.path.dirname(os.path.abspath(__file__))
_spec = importlib.util.spec_from_file_location(
    'c13_node_mutants',
    os.path.join(os.path.dirname(os.path.dirname(_HERE)), 'mutants',
                 'node.py'))
_node = importlib.util.module_from_spec(_spec)
_spec.loader.exec_module(_node)

MGR = _node.MGR
MON = _node.MON

_REWRITTEN = {
    'synchronize-compares-instance-only': [
        (MGR,
         "                if cached.get(appname) != container:\n",
         "                if appname not in cached:\n")],
    'configure-failure-keeps-cache-file': [
        (MGR,
         "                                         why=app_abort.AbortedReason.UNKNOWN,\n"
         "                                         payload=traceback.format_exc())\n"
         "                self._discard(event_file)\n",
         "                                         why=app_abort.AbortedReason.UNKNOWN,\n"
         "                                         payload=traceback.format_exc())\n")],
}

MUTANTS = []
for _mut in _node.MUTANTS:
    _mut = dict(_mut)
    if _mut['name'] == 'on-created-without-configured-check':
        # equivalent once fix-1 added the second guard: replaced below by
        # 'on-created-without-any-configured-check'
        continue
    if _mut['name'] in _REWRITTEN:
        _mut['edits'] = _REWRITTEN[_mut['name']]
    MUTANTS.append(_mut)

MUTANTS += [
    # fix-1 removed again: delete+create of one instance queued behind the
    # READY event (or faster than the manager)
    {'prop': 'C13', 'name': 'on-deleted-without-stale-event-guard',
     'expect': 'container-two-links:running+cleanup / disturbed',
     'edits': [(MGR,
                "        elif self._is_running(event_file):\n",
                "        elif False and self._is_running(event_file):\n")]},
    # fix-1 removed again: container finishes between the synchronisation
    # and the stale created event
    {'prop': 'C13', 'name': 'on-created-without-stale-event-guard',
     'expect': 'finished-container-restarted',
     'edits': [(MGR,
                "        elif self._is_configured(event_file):\n",
                "        elif False and self._is_configured(event_file):\n")]},
    # both guards of _on_created gone: a created event queued behind the
    # READY event configures the running container again
    {'prop': 'C13', 'name': 'on-created-without-any-configured-check',
     'expect': 'unchanged-container-disturbed:settled:via-configured-again-*',
     'edits': [(MGR,
                "        elif os.path.islink(os.path.join(self.tm_env.running_dir,\n"
                "                                         instance_name)):\n",
                "        elif False and os.path.islink(os.path.join(self.tm_env.running_dir,\n"
                "                                         instance_name)):\n"),
               (MGR,
                "        elif self._is_configured(event_file):\n",
                "        elif False and self._is_configured(event_file):\n")]},
    # fix-2 partly removed: older generation in cleanup hides the cached one
    {'prop': 'C13', 'name': 'synchronize-pops-cache-entry-unconditionally',
     'expect': 'running-not-matching-cache:missing:at-sync:via-not-configured-*',
     'edits': [(MGR,
                "                if cached.get(appname) == container:\n"
                "                    cached.pop(appname, None)\n",
                "                cached.pop(appname, None)\n")]},
    # fix-4 removed again
    {'prop': 'C13', 'name': 'monitor-overwrites-cleanup-link',
     'expect': 'uncached-container-not-cleaned:*:via-cleanup-link-overwritten-by-*',
     'edits': [(MON,
                "            if os.readlink(cleanup) != container_dir:\n",
                "            if False and os.readlink(cleanup) != container_dir:\n")]},
    {'prop': 'C13', 'name': 'monitor-flags-aborted-through-missing-link',
     'expect': 'synchronize-raises',
     'edits': [(MON,
                "        if int(data['signal']) == 6 and os.path.exists(running):\n",
                "        if int(data['signal']) == 6:\n")]},
]
