"""monitorsim: the real app-monitor loop under inversion of control (C20).

Real: treadmill.sproc.appmonitor._run_sync (the whole `while True` loop, its
three watch closures, make_alerter) and reevaluate, exactly as they are;
zkwatchers.ExistingDataWatch and the kazoo ChildrenWatch recipe bound to the
simulated client; utils.exit_on_unhandled; zkutils; masterapi
(update_appmonitor / delete_appmonitor for the world actor,
get_suspended_appmonitors, create_apps / delete_apps behind the API);
api.instance.API.create / bulk_delete with their JSON-schema validation and
quota checks; trace.post_zk; restclient._handle_error (status -> exception).

Simulated: ZooKeeper (simkit.zk), the clock, the HTTP transport and flask glue
of the cell API (URL parsing, error -> status table), the LDAP application
store and the site instance plugin (proid/environment), the alert sink.

Inversion of control: `_run_sync` is called on the simulator thread; every
`time.sleep(1)` of its loop lands in Clock.on_sleep, which *is* the simulator
step: it executes recorded/generated world ops until an {"op": "eval"} marker,
then returns, and the loop performs one real `reevaluate`.

Recorded op list (flat, total, replayable without a PRNG):
  {"op":"eval"}                       end of the sleep step: one evaluation
  {"op":"deliver","n":k}              k queued watch events reach the monitor
  {"op":"deliver_all"}                ... all of them (prompt delivery)
  {"op":"kill","app":A,"which":i}     an instance goes away
  {"op":"spawn","app":A,"n":k}        somebody else starts instances
  {"op":"mon_set","app":A,"count":c,"policy":p}   create / reconfigure
  {"op":"mon_del","app":A}            delete the monitor
  {"op":"rest_fail","kind":K,"n":k}   the next k POSTs fail with K
  {"op":"rest_heal"}                  pending injected failures are dropped
  {"op":"app_config","app":A,"state":"ok|absent|invalid"}  natural 404 / 400
  {"op":"advance","dt":s}             the clock jumps
  {"op":"restart"}                    the monitor process is restarted
  {"op":"conn_flap"}                  the monitor's ZooKeeper connection drops
                                      and comes back, the session survives
                                      (simkit.zk.SimZk.flap: SUSPENDED, the
                                      client's watch callbacks reset with a
                                      NONE event, CONNECTED; what the recipes
                                      do about it is queued like any event)
"""

import inspect
import json
import math
import re
import types
import warnings

import decorator

if not hasattr(decorator, 'getargspec'):
    decorator.getargspec = inspect.getfullargspec

import simkit
from simkit import SimDone, SimProcessExit, HarnessError
from simkit import clock as clockmod
from simkit import engine as enginemod
from simkit import log as logmod
from simkit import rng as rngmod
from simkit import zk as zkmod

warnings.filterwarnings('ignore', message='pkg_resources is deprecated')

import jsonschema                                     # noqa: E402
import kazoo.exceptions                               # noqa: E402

from treadmill import exc as tm_exc                   # noqa: E402
from treadmill import restclient as real_restclient   # noqa: E402
from treadmill import utils                           # noqa: E402
from treadmill import zknamespace as z                # noqa: E402
from treadmill import zkutils                         # noqa: E402
from treadmill import zkwatchers as real_zkwatchers   # noqa: E402
from treadmill.admin import exc as admin_exc          # noqa: E402
from treadmill.api import instance as instapi         # noqa: E402
from treadmill.scheduler import masterapi             # noqa: E402
from treadmill.sproc import appmonitor                # noqa: E402

API_URL = 'http://cellapi.sim'
CELL = 'simcell'
ALERTS_DIR = '/nonexistent/alerts'
EPS = 1e-6                   # tokens; float noise only
HOUR = 3600.0
SUSPEND_S = 300.0            # appmonitor._DELAY_INTERVAL (code, not statement)
LIVENESS_SLACK_EVALS = 3     # the "+ constant" of the bounded-liveness clause
ALL_APPS = ('proid.web', 'proid.web-db', 'other.job')
FAIL_KINDS = ('notfound', 'badrequest', 'validation', 'error_before',
              'lost_ack', 'zk_lost_reply')
_CREATE_RE = re.compile(r'^/instance/([^?/]+)\?count=(-?\d+)$')

GOOD_MANIFEST = {
    'memory': '100M', 'cpu': '10%', 'disk': '100M',
    'services': [{'name': 'main', 'command': '/bin/true',
                  'restart': {'limit': 1, 'interval': 60}}],
}


class _Restart(BaseException):
    """Unwinds _run_sync: the monitor process is restarted by the world."""


class _HarnessAbort(BaseException):
    """A harness defect noticed below an `except Exception` of the code under
    test (which would swallow a HarnessError)."""


def _sys_exit(code):
    raise SimProcessExit(code)


def _seq(instance):
    """Creation order of an instance: its ZooKeeper sequence number."""
    return int(instance.rpartition('#')[2])


def _app_of(instance):
    return instance.rpartition('#')[0]


def _single_watch(table, path, sid, watch):
    """One entry per (session, callback) in a watch table of simkit.zk (a
    list, the later registration is dropped)."""
    path = zkmod._norm(path)                       # pylint: disable=W0212
    entries = table.get(path)
    if not entries:
        return
    seen = False
    keep = []
    for entry in entries:
        if entry[0] == sid and entry[1] == watch:
            if seen:
                continue
            seen = True
        keep.append(entry)
    table[path] = keep


# ---------------------------------------------------------------------------
# the cell API endpoint (model of transport + glue, real implementation below)

class FakeResponse:
    def __init__(self, status_code, body):
        self.status_code = status_code
        self._body = body
        self.text = json.dumps(body)
        self.content = self.text.encode()

    def json(self):
        return self._body


class AdminApps:
    """Stands in for the LDAP application store (admin.application())."""

    def __init__(self):
        self.state = {}              # app -> 'ok' | 'absent' | 'invalid'

    def get(self, rsrc_id):
        state = self.state.get(rsrc_id, 'absent')
        if state == 'absent':
            raise admin_exc.NoSuchObjectResult(rsrc_id)
        manifest = json.loads(json.dumps(GOOD_MANIFEST))
        if state == 'invalid':
            manifest['memory'] = '50M'       # api.instance._validate rejects
        manifest['_id'] = rsrc_id
        return manifest


class SitePlugin:
    """The site's instance plugin (none ships with the repo): adds the two
    attributes api.instance._check_required_attributes demands."""

    @staticmethod
    def add_attributes(rsrc_id, configured):
        configured = dict(configured)
        configured['proid'] = rsrc_id.partition('.')[0]
        configured['environment'] = 'dev'
        return configured

    @staticmethod
    def remove_attributes(configured):
        return configured


def _status_of(err):
    """rest/error_handlers.py: exception -> HTTP status."""
    if isinstance(err, (kazoo.exceptions.NoNodeError,
                        admin_exc.NoSuchObjectResult, tm_exc.NotFoundError)):
        return 404
    if isinstance(err, (jsonschema.exceptions.ValidationError,
                        tm_exc.InvalidInputError, tm_exc.QuotaExceededError)):
        return 400
    if isinstance(err, (kazoo.exceptions.NodeExistsError,
                        admin_exc.AlreadyExistsResult, tm_exc.FoundError)):
        return 409
    return 500


class CellApi:
    """restclient.post as seen from sproc.appmonitor."""

    def __init__(self, world):
        self.world = world
        self.impl = instapi.API()
        self.impl._plugins = [SitePlugin]    # pylint: disable=W0212

    def post(self, api, url, payload, headers=None, **_kwargs):
        try:
            verdict, value = self._post(api, url, payload, headers)
        except Exception as err:   # pylint: disable=broad-except
            raise _HarnessAbort(err)
        if verdict == 'raise':
            raise value
        return value

    def _post(self, api, url, payload, headers):
        world = self.world
        if not isinstance(api, list) or api != [API_URL]:
            raise HarnessError('unexpected api endpoint %r' % (api,))
        rec = world.on_post_begin(url, payload, headers)
        inject = world.fail_queue.pop(0) if world.fail_queue else None
        zk_at = 1
        if inject and inject.startswith('zk_lost_reply:'):
            inject, _sep, zk_at = inject.partition(':')
            zk_at = int(zk_at)
        rec['inject'] = inject
        if inject in ('notfound', 'badrequest', 'validation',
                      'error_before'):
            rec['outcome'] = inject
            world.on_post_end(rec)
            return 'raise', self._injected(inject, url)
        # the request reaches the server and is processed
        sched_before = set(world.zk.children(z.SCHEDULED) or [])
        new = []
        fired = False
        if inject == 'zk_lost_reply':
            # the reply to one of the API server's own ZooKeeper writes is
            # lost after the write was applied (the server reconnects)
            client = world.api_client
            client.fault_plan = {
                'at': client.nwrites + zk_at,
                'kind': 'conn_loss', 'applied': True}
        try:
            try:
                body = self._serve(rec, payload)
            finally:
                fired = inject == 'zk_lost_reply' and \
                    world.api_client.fault_plan is None
                world.api_client.fault_plan = None
                if rec['kind'] == 'create':
                    new = sorted(
                        (i for i in set(world.zk.children(z.SCHEDULED) or [])
                         - sched_before if _app_of(i) == rec['app']),
                        key=_seq)
                    if len(new) > rec['n']:
                        world.fail(
                            'C20:created-more-than-asked',
                            'POST %s asked for %d, %d were scheduled: %s' % (
                                url, rec['n'], len(new), new))
            status = 200
        except HarnessError:
            raise
        except kazoo.exceptions.ConnectionLoss:
            if not fired:
                raise
            # 500 from the API server: the client retries, then gives up
            rec['created'] = new
            rec['outcome'] = 'zk_lost_reply'
            world.on_post_end(rec)
            return 'raise', real_restclient.MaxRequestRetriesError(
                [(0, url, 500, 'internal server error')])
        except Exception as err:   # pylint: disable=broad-except
            status = _status_of(err)
            if status == 500:
                # nothing the world can do makes the real API fail this way
                raise
            body = {'message': str(err)[:200], 'status': status}
            rec['server_error'] = type(err).__name__
        if status == 200 and inject == 'lost_ack':
            rec['outcome'] = 'lost_ack'
            world.on_post_end(rec)
            return 'raise', real_restclient.MaxRequestRetriesError(
                [(0, url, 599, 'connection reset')])
        response = FakeResponse(status, body)
        if status == 200:
            rec['outcome'] = 'ok'
            world.on_post_end(rec)
            return 'return', response
        rec['outcome'] = {404: 'notfound', 400: 'badrequest'}[status]
        rec['natural'] = True
        world.on_post_end(rec)
        # the real status -> exception table
        try:
            real_restclient._handle_error(url, response)  # noqa pylint: disable=W0212
        except (real_restclient.NotFoundError,
                real_restclient.BadRequestError) as err:
            return 'raise', err
        raise HarnessError('status %d not mapped to an exception' % status)

    @staticmethod
    def _injected(kind, url):
        if kind == 'notfound':
            return real_restclient.NotFoundError(
                'Resource not found: {}'.format(url))
        if kind == 'badrequest':
            return real_restclient.BadRequestError(
                FakeResponse(400, {'message': 'injected bad request'}))
        if kind == 'validation':
            return real_restclient.ValidationError(
                FakeResponse(424, {'message': 'injected failed dependency'}))
        return real_restclient.MaxRequestRetriesError(
            [(0, url, 599, 'connection refused')])

    def _serve(self, rec, payload):
        """rest/api/instance.py glue, then the real api.instance.API."""
        if rec['kind'] == 'create':
            instances = self.impl.create(rec['app'], payload, rec['n'],
                                         'monitor', False, None)
            rec['created'] = list(instances)
            return {'instances': instances}
        instance_ids = payload['instances']
        if not instance_ids:
            return {}
        proid = None
        for instance_id in instance_ids:
            if proid is None:
                proid = instance_id.partition('.')[0]
            elif proid != instance_id.partition('.')[0]:
                raise tm_exc.InvalidInputError(
                    __name__, 'Mulitple proids in bulk delete request.')
        self.impl.bulk_delete(proid, instance_ids, 'monitor')
        return {}


class _RestclientShim:
    """treadmill.sproc.appmonitor.restclient: the real module with post()
    routed to the in-process endpoint."""

    def __init__(self, cellapi):
        self.post = cellapi.post

    def __getattr__(self, name):
        return getattr(real_restclient, name)


# ---------------------------------------------------------------------------
# what the monitor has been told (harness-side record of watch deliveries)

class Told:
    """Facts delivered to the monitor process through its watches, and the
    reference token bucket / suspension derived from them."""

    def __init__(self):
        self.sched = []          # last children of /scheduled delivered
        self.mons = set()        # last children of /app-monitors delivered
        self.conf = {}           # name -> {'count','policy','t'} last valid
        self.bucket = {}         # name -> {'tok','t','rate','cap'}
        self.susp_safe = {}      # name -> earliest possible end of suspension
        self.susp_live = {}      # name -> latest possible end of suspension

    def instances(self, app):
        return sorted((i for i in self.sched if _app_of(i) == app), key=_seq)

    def tokens(self, app, now):
        b = self.bucket.get(app)
        if b is None:
            return None
        return min(b['cap'], b['tok'] + b['rate'] * max(0.0, now - b['t']))


# ---------------------------------------------------------------------------

class World:
    def __init__(self, config, clock, log):
        self.config = config
        self.clock = clock
        self.log = log
        self.apps = list(config['apps'])
        self.zk = zkmod.SimZk(clock, log)
        # order in which ZooKeeper hands out children (None: by name)
        self.zk.order_seed = config.get('child_order')
        self.admin = self.zk.connect('admin')
        self.api_client = self.zk.connect('cellapi')
        for path in (z.SCHEDULED, z.path.appmonitor(), z.TRACE):
            zkutils.ensure_exists(self.admin, path)
        self.admin_apps = AdminApps()
        for app in self.apps:
            self.admin_apps.state[app] = 'ok'
        self.cellapi = CellApi(self)
        self.fail_queue = []
        self.mon_client = None
        self.mon_gen = 0
        self.told = Told()
        self.violation = None
        self.step = 0
        self.eval_idx = 0
        self.cur_eval = None
        self.epoch = 0
        self.stretch = {}
        self.ever_monitored = set()
        self.want = {}           # app -> configuration requested so far
        self.flap_open = False
        self.deleted_in_flap = set()
        self.recreated_in_flap = set()
        self.fps = []
        self.nontrivial = 0
        self.died = 0
        self.alerts = 0
        self.in_step = False
        self.probes = {k: 0 for k in (
            'evaluations', 'creates', 'deletes', 'instances_created',
            'instances_deleted', 'lost_ack', 'suspended_skips',
            'monitor_deleted', 'monitor_recreated', 'policy_lifo',
            'policy_fifo', 'budget_exhausted', 'budget_binding',
            'scale_down', 'scale_down_partial',
            'scale_down_unordered_children', 'prompt_evals', 'lagging_evals',
            'stale_view_action', 'liveness_stretches', 'converged',
            'deadline_checks', 'deadline_checks_after_wait',
            'resumed_after_suspension', 'natural_404',
            'natural_400', 'external_spawn', 'kills', 'alerts',
            'reconfigured', 'conn_flaps', 'conn_flaps_budget_short',
            'flap_events_queued', 'budget_binding_after_flap',
            'budget_exhausted_after_flap', 'create_after_flap')}
        for kind in FAIL_KINDS:
            self.probes['rest_fail_' + kind] = 0
        self.faults = {k: 0 for k in (
            'rest_notfound', 'rest_badrequest', 'rest_validation',
            'rest_error_before', 'rest_lost_ack', 'watch_lag',
            'monitor_restart', 'clock_jump', 'instance_died',
            'app_unconfigured', 'conn_flap')}

    # ------------------------------------------------------------------
    def fail(self, sig, detail):
        if self.violation is None:
            self.violation = {'sig': sig, 'detail': detail, 'step': self.step}

    # -- ground truth ---------------------------------------------------
    def live(self, app):
        return sorted((i for i in self.zk.children(z.SCHEDULED) or []
                       if _app_of(i) == app), key=_seq)

    def zk_monitor(self, app):
        """(count, policy) stored in ZooKeeper, or None."""
        node = self.zk.nodes.get(z.path.appmonitor(app))
        if node is None:
            return None
        try:
            data = json.loads(node.data.decode())
            return int(data['count']), data.get('policy')
        except (ValueError, KeyError, TypeError, AttributeError):
            return None

    # -- seams: watch deliveries -----------------------------------------
    def on_children(self, path, children):
        told = self.told
        if path == z.SCHEDULED:
            told.sched = list(children)
        elif path == z.path.appmonitor():
            names = set(children)
            for name in sorted(set(told.conf) | set(told.bucket) |
                               set(told.susp_safe)):
                if name not in names:
                    told.conf.pop(name, None)
                    told.bucket.pop(name, None)
                    told.susp_safe.pop(name, None)
            told.mons = names
        self.log.ev('told-children', path, sorted(children))

    def on_data(self, path, data, stat, event, again=False):
        name = path.rpartition('/')[2]
        deleted = (event is not None and event.type == 'DELETED') or \
            stat is None
        if deleted:
            # a suspension belongs to the monitor that was deleted
            self.told.susp_safe.pop(name, None)
            self.log.ev('told-deleted', name)
            return
        if again:
            # the same watch hands over the version of the node it handed
            # over last (nobody wrote to it): the monitor is told nothing
            # new, nothing was (re)configured, the reference budget stays
            # (never on the unchanged tree: not a reach probe)
            self.probes['same_version_told_again'] = \
                self.probes.get('same_version_told_again', 0) + 1
            self.log.ev('told-again', name, stat.mzxid)
            return
        try:
            loaded = json.loads(data.decode())
            count = loaded['count']
            policy = loaded.get('policy')
            if not isinstance(count, int) or isinstance(count, bool):
                raise ValueError(count)
        except (ValueError, KeyError, TypeError, AttributeError):
            self.log.ev('told-invalid', name)
            return
        now = self.clock.peek()
        if name in self.told.conf:
            self.probes['reconfigured'] += 1
        # reference bucket: a new epoch with a full burst at every
        # (re)configuration the monitor is told about [code: 254-260]
        want = self.want.get(name)
        if want is not None and want['count'] is not None:
            # the configuration in force is the one requested (the record is
            # read at this instant, the requests are all in)
            if (count, policy) != (want['count'], want['policy']):
                self.probes['stored_differs_from_requested'] = \
                    self.probes.get('stored_differs_from_requested', 0) + 1
            count, policy = want['count'], want['policy']
        self.told.conf[name] = {'count': count, 'policy': policy, 't': now}
        # reading the node successfully also tells the monitor it exists
        self.told.mons.add(name)
        self.told.bucket[name] = {'tok': 2.0 * count, 't': now,
                                  'rate': 2.0 * count / HOUR,
                                  'cap': 2.0 * count, 'flaps': 0}
        self.log.ev('told-config', name, count, policy)

    def on_alert(self, _alerts_dir, **kwargs):
        self.alerts += 1
        self.probes['alerts'] += 1
        self.log.ev('alert', kwargs.get('instanceid'), kwargs.get('summary'),
                    kwargs.get('status'))

    # -- the monitor process ----------------------------------------------
    def run_monitor(self):
        """A monitor process: runs the real _run_sync until unwound."""
        self.mon_gen += 1
        if self.mon_client is not None:
            self.zk.expire(self.mon_client.client_id[0])
        client = self.zk.connect('monitor%d' % self.mon_gen)
        self.mon_client = client
        self.told = Told()
        self.stretch = {}
        world = self
        real_children_watch = client.ChildrenWatch

        def children_watch(path, func=None, **kwargs):
            def bind(fun):
                def recorded(children):
                    world.on_children(path, children)
                    return fun(children)
                real_children_watch(path, recorded, **kwargs)
                return fun
            return bind if func is None else bind(func)

        client.ChildrenWatch = children_watch
        # the kazoo client keeps the watch callbacks of a path in a set and
        # the server one watch per session and path: a recipe that passes
        # its callback again (as the recipes do when the connection is back)
        # has not set a second watch
        sid = client.client_id[0]
        real_get, real_get_children = client.get, client.get_children

        def get(path, watch=None):
            result = real_get(path, watch)
            if watch is not None:
                _single_watch(world.zk.data_watches, path, sid, watch)
            return result

        def get_children(path, watch=None, include_data=False):
            result = real_get_children(path, watch, include_data)
            if watch is not None:
                _single_watch(world.zk.child_watches, path, sid, watch)
            return result

        client.get, client.get_children = get, get_children
        appmonitor.context = types.SimpleNamespace(
            GLOBAL=types.SimpleNamespace(
                zk=types.SimpleNamespace(conn=client), cell=CELL))
        self.log.ev('monitor-start', self.mon_gen)
        appmonitor._run_sync(API_URL, ALERTS_DIR, False)  # noqa pylint: disable=W0212
        raise HarnessError('_run_sync returned')

    def existing_data_watch(self, client, path, func=None):
        """zkwatchers.ExistingDataWatch with the deliveries recorded."""
        world = self

        def bind(fun):
            last = [None]            # version this watch handed over last

            def recorded(data, stat, event):
                again = stat is not None and stat.mzxid == last[0]
                if stat is not None:
                    last[0] = stat.mzxid
                world.on_data(path, data, stat, event, again)
                return fun(data, stat, event)
            real_zkwatchers.ExistingDataWatch(client, path, recorded)
            return fun
        return bind if func is None else bind(func)

    def reevaluate(self, api_url, alert_f, state, *args, **kwargs):
        """Harness-side wrapper of the real reevaluate (further arguments
        are passed through as they come)."""
        ev = self.begin_eval(state)
        try:
            result = self.real_reevaluate(api_url, alert_f, state, *args,
                                          **kwargs)
        except Exception as err:   # pylint: disable=broad-except
            if isinstance(err, HarnessError):
                raise
            self.cur_eval = None
            self.check_posts(ev)
            tb = err.__traceback__
            while tb.tb_next is not None:
                tb = tb.tb_next
            self.fail('C20:evaluation-crashed:%s' % type(err).__name__,
                      'reevaluate raised %r at %s:%d' % (
                          err, tb.tb_frame.f_code.co_filename, tb.tb_lineno))
            raise SimDone()
        self.cur_eval = None
        self.end_eval(ev, state, result)
        if self.violation is not None:
            raise SimDone()
        return result

    # -- one evaluation ----------------------------------------------------
    def begin_eval(self, state):
        if self.cur_eval is not None:
            raise HarnessError('nested evaluation')
        self.eval_idx += 1
        self.probes['evaluations'] += 1
        now = self.clock.peek()
        pending = self.zk.pending(self.mon_client.client_id[0])
        prompt = pending == 0
        calm = prompt and not self.fail_queue
        if prompt:
            self.probes['prompt_evals'] += 1
        else:
            self.probes['lagging_evals'] += 1
            self.faults['watch_lag'] += 1
        own = {}
        for name in sorted(state['monitors']):
            conf = state['monitors'][name]
            own[name] = [conf.get('count'), conf.get('policy'),
                         round(conf.get('available', 0.0), 6)]
        ev = {'idx': self.eval_idx, 't0': now, 'posts': [], 'prompt': prompt,
              'calm': calm, 'own': own,
              'own_susp': {k: state['suspended'][k]
                           for k in sorted(state['suspended'])},
              'truth': {}}
        for app in self.apps:
            mon = self.zk_monitor(app)
            live = self.live(app)
            ev['truth'][app] = {'mon': mon, 'live': len(live)}
            self._stretch_begin(app, ev, mon, len(live))
        self.cur_eval = ev
        return ev

    def on_post_begin(self, url, payload, headers):
        ev = self.cur_eval
        if ev is None:
            raise HarnessError('POST outside an evaluation: %s' % url)
        now = self.clock.peek()
        rec = {'url': url, 't': now}
        match = _CREATE_RE.match(url)
        if match:
            app = match.group(1)
            rec.update(kind='create', app=app, n=int(match.group(2)),
                       apps=[app])
        elif url == '/instance/_bulk/delete':
            instances = list((payload or {}).get('instances') or [])
            rec.update(kind='delete', instances=instances,
                       apps=sorted({_app_of(i) for i in instances}))
            rec['app'] = rec['apps'][0] if rec['apps'] else None
        else:
            raise HarnessError('unexpected POST %s' % url)
        if (headers or {}).get('X-Treadmill-Trusted-Agent') != 'monitor':
            raise HarnessError('POST without the trusted-agent header')
        # the monitor's view and the reference budget at this instant
        rec['view'] = {a: self.told.instances(a) for a in rec['apps']}
        rec['tokens'] = {a: self.told.tokens(a, now) for a in rec['apps']}
        ev['posts'].append(rec)
        return rec

    def on_post_end(self, rec):
        outcome = rec['outcome']
        told = self.told
        self.log.ev('post', rec['kind'], rec['apps'],
                    rec.get('n', len(rec.get('instances', ()))), outcome)
        if rec['kind'] == 'create':
            app = rec['app']
            self.probes['creates'] += 1
            if outcome in ('ok', 'lost_ack', 'zk_lost_reply'):
                self.probes['instances_created'] += len(rec.get('created',
                                                                ()))
            if outcome == 'ok':
                # only acknowledged creations are charged [code: 144]
                bucket = told.bucket.get(app)
                if bucket is not None:
                    bucket['tok'] = rec['tokens'][app] - rec['n']
                    bucket['t'] = rec['t']
            if outcome in ('notfound', 'badrequest', 'validation'):
                # [code: 145-159] the monitor suspends the app for
                # _DELAY_INTERVAL counted from the evaluation's `now`,
                # which lies between the evaluation's start and this POST
                told.susp_safe[app] = (self.cur_eval['t0'] + SUSPEND_S,
                                       self.cur_eval['idx'])
                told.susp_live[app] = rec['t'] + SUSPEND_S
        else:
            self.probes['deletes'] += 1
            if outcome in ('ok', 'lost_ack'):
                self.probes['instances_deleted'] += len(rec['instances'])
        if outcome != 'ok':
            if rec.get('natural'):
                self.probes['natural_%d' % (404 if outcome == 'notfound'
                                            else 400)] += 1
            else:
                self.probes['rest_fail_' + outcome] += 1
            if outcome == 'lost_ack':
                self.probes['lost_ack'] += 1
            self.faults['rest_' + outcome] = \
                self.faults.get('rest_' + outcome, 0) + 1

    def check_posts(self, ev):
        """Safety clauses, per application and evaluation, in terms of what
        the monitor had been told when it acted."""
        told = self.told
        by_app = {}
        for rec in ev['posts']:
            for app in rec['apps']:
                by_app.setdefault(app, []).append(rec)
        for app in sorted(by_app):
            recs = by_app[app]
            where = 'evaluation %d, %s' % (ev['idx'], app)
            if len(recs) > 1:
                kinds = sorted({r['kind'] for r in recs})
                if len(kinds) > 1:
                    return self.fail('C20:create-and-delete-same-eval',
                                     '%s: %s' % (where, [r['url'] for r in
                                                         recs]))
                return self.fail('C20:multiple-posts-same-eval',
                                 '%s: %d %s POSTs' % (where, len(recs),
                                                      kinds[0]))
            rec = recs[0]
            if app not in told.mons:
                return self.fail(
                    'C20:action-for-deleted-monitor',
                    '%s: %s POST although the monitor had been told that '
                    '/app-monitors has children %s' % (
                        where, rec['kind'], sorted(told.mons)))
            conf = told.conf.get(app)
            if conf is None:
                return self.fail(
                    'C20:action-for-unconfigured-monitor',
                    '%s: %s POST, no valid configuration was ever '
                    'delivered' % (where, rec['kind']))
            until, since = told.susp_safe.get(app, (0.0, 0))
            if ev['idx'] > since and rec['t'] < until:
                return self.fail(
                    'C20:action-for-suspended',
                    '%s: %s POST at %.3f, suspended until at least %.3f'
                    % (where, rec['kind'], rec['t'], until))
            target = conf['count']
            have = rec['view'][app]
            if rec['kind'] == 'create':
                missing = target - len(have)
                if rec['n'] > max(missing, 0):
                    return self.fail(
                        'C20:created-more-than-missing',
                        '%s: asked for %d, target %d, %d instances in the '
                        "monitor's view" % (where, rec['n'], target,
                                            len(have)))
                tokens = rec['tokens'][app]
                if rec['n'] > math.floor(tokens + EPS):
                    return self.fail(
                        'C20:over-rate-budget',
                        '%s: asked for %d with %.6f tokens in the reference '
                        'bucket (target %d, configured at %.3f)' % (
                            where, rec['n'], tokens, target, conf['t']))
                if missing > math.floor(tokens + EPS) or \
                        rec['outcome'] != 'ok':
                    ev['nontrivial'] = True
                flapped = ev['prompt'] and \
                    (told.bucket.get(app) or {}).get('flaps', 0) > 0
                if flapped:
                    # decided with every consequence of a connection flap
                    # delivered, in a budget epoch that began before it
                    self.probes['create_after_flap'] += 1
                if missing > math.floor(tokens + EPS):
                    self.probes['budget_binding'] += 1
                    if flapped:
                        self.probes['budget_binding_after_flap'] += 1
                if sorted(self.live(app), key=_seq) != \
                        sorted(have + rec.get('created', []), key=_seq) \
                        and rec['outcome'] in ('ok', 'lost_ack'):
                    self.probes['stale_view_action'] += 1
            else:
                policy = conf['policy'] if conf['policy'] is not None \
                    else 'fifo'
                surplus = len(have) - target
                self.probes['scale_down'] += 1
                if 0 < target < len(have):
                    self.probes['scale_down_partial'] += 1
                    if [i for i in told.sched if _app_of(i) == app] != have:
                        # delivered out of creation order: only code that
                        # orders the instances itself picks the right ones
                        self.probes['scale_down_unordered_children'] += 1
                if rec['outcome'] != 'ok':
                    ev['nontrivial'] = True
                if surplus <= 0:
                    return self.fail(
                        'C20:deleted-without-surplus',
                        '%s: deletes %s, target %d, %d in view' % (
                            where, rec['instances'], target, len(have)))
                if policy == 'fifo':
                    expected = have[:surplus]
                    self.probes['policy_fifo'] += 1
                elif policy == 'lifo':
                    expected = have[len(have) - surplus:]
                    self.probes['policy_lifo'] += 1
                else:
                    return self.fail(
                        'C20:deleted-wrong-instances:invalid-policy',
                        '%s: policy %r' % (where, policy))
                mine = [i for i in rec['instances'] if _app_of(i) == app]
                if len(mine) != surplus or len(set(mine)) != surplus:
                    return self.fail(
                        'C20:deleted-wrong-count:%s' % policy,
                        '%s: deletes %s, surplus is %d (target %d, view %s)'
                        % (where, mine, surplus, target, have))
                if set(mine) != set(expected):
                    return self.fail(
                        'C20:deleted-wrong-instances:%s' % policy,
                        '%s: deletes %s, expected %s (view %s)' % (
                            where, sorted(mine, key=_seq), expected, have))
        return None

    def end_eval(self, ev, state, _result):
        self.check_posts(ev)
        if self.violation is not None:
            return
        told = self.told
        # `available` never negative
        for name in sorted(state['monitors']):
            available = state['monitors'][name].get('available', 0.0)
            if available < -EPS:
                return self.fail(
                    'C20:negative-budget',
                    'evaluation %d: %s has available=%r' % (
                        ev['idx'], name, available))
        posted = {app for rec in ev['posts'] for app in rec['apps']}
        t_end = self.clock.peek()
        summary = []
        for app in self.apps:
            truth = ev['truth'][app]
            live_after = len(self.live(app))
            conf = told.conf.get(app)
            # reach probes
            if app not in posted and conf is not None and app in told.mons:
                have = len(told.instances(app))
                until = told.susp_live.get(app)
                if have != conf['count'] and until is not None and \
                        ev['t0'] < told.susp_safe.get(app, (0.0, 0))[0]:
                    self.probes['suspended_skips'] += 1
                elif have < conf['count'] and \
                        told.tokens(app, ev['t0']) < 1.0:
                    self.probes['budget_exhausted'] += 1
                    if ev['prompt'] and \
                            (told.bucket.get(app) or {}).get('flaps', 0):
                        self.probes['budget_exhausted_after_flap'] += 1
            if app in posted and told.susp_live.get(app) is not None and \
                    ev['t0'] >= told.susp_live[app] and \
                    not any(r['outcome'] in ('notfound', 'badrequest',
                                             'validation')
                            for r in ev['posts'] if app in r['apps']):
                self.probes['resumed_after_suspension'] += 1
                told.susp_live.pop(app, None)
                told.susp_safe.pop(app, None)
            # no overshoot through the monitor's own creations when it was
            # fully informed
            mon = truth['mon']
            stale_cfg = ev['prompt'] and mon is not None and (
                conf is None or (conf['count'], conf['policy']) != mon)
            if stale_cfg:
                self.probes['config_not_watched_state'] = \
                    self.probes.get('config_not_watched_state', 0) + 1
            if ev['prompt'] and mon is not None:
                created = sum(len(r.get('created', ())) for r in ev['posts']
                              if r['kind'] == 'create' and r['app'] == app)
                if created and live_after > max(mon[0], truth['live']):
                    return self.fail(
                        'C20:overshoot' + (
                            ':monitor-config-not-watched' if stale_cfg
                            else ''),
                        'evaluation %d (all watch events delivered): %s has '
                        '%d instances after the monitor created %d; target '
                        'in ZooKeeper %d, monitor was told %r' % (
                            ev['idx'], app, live_after, created, mon[0],
                            conf))
            self._stretch_end(app, ev, live_after, stale_cfg, conf)
            if self.violation is not None:
                return None
            tok = told.tokens(app, t_end)
            summary.append([
                app, mon[0] if mon else None, mon[1] if mon else None,
                live_after, None if tok is None else int(min(tok, 9)),
                bool(told.susp_safe.get(app, (0.0, 0))[0] > t_end),
                self.admin_apps.state.get(app), app in told.mons])
        if ev.get('nontrivial'):
            self.nontrivial += 1
        summary.append([bool(self.fail_queue), ev['prompt']])
        self.fps.append(logmod.fingerprint(summary))
        self.log.ev('eval', ev['idx'], ev['prompt'], ev['own'],
                    [[r['kind'], r['apps'], r.get('n'),
                      r.get('instances'), r['outcome']] for r in ev['posts']],
                    summary)
        return None

    # -- bounded liveness ---------------------------------------------------
    def _active(self, app, ev, mon):
        return (ev['calm'] and mon is not None and
                self.admin_apps.state.get(app) == 'ok')

    def _stretch_begin(self, app, ev, mon, live):
        """Called at the start of an evaluation, before it acts."""
        st = self.stretch.get(app)
        if not self._active(app, ev, mon):
            self.stretch.pop(app, None)
            return
        if live == mon[0]:
            if st is not None:
                self.probes['converged'] += 1
            self.stretch.pop(app, None)
            return
        if st is not None and st['epoch'] == self.epoch and \
                st['target'] == mon[0]:
            return
        told = self.told
        t_start = max(ev['t0'], told.susp_live.get(app, 0.0))
        t_need = t_start
        missing = mon[0] - live
        conf = told.conf.get(app)
        if missing > 0 and conf is not None and conf['count'] == mon[0]:
            tok0 = told.tokens(app, t_start)
            rate = told.bucket[app]['rate']
            if tok0 < missing:
                t_need = t_start + (missing - tok0) / rate
        self.stretch[app] = {'epoch': self.epoch, 'target': mon[0],
                             'since': ev['idx'], 't_need': t_need,
                             'missing': missing, 'after': 0,
                             'waits': t_need > ev['t0']}
        self.probes['liveness_stretches'] += 1

    def _stretch_end(self, app, ev, live_after, stale_cfg, conf):
        st = self.stretch.get(app)
        if st is None:
            return
        if ev['t0'] >= st['t_need']:
            self.probes['deadline_checks'] += 1
            if st['waits']:
                self.probes['deadline_checks_after_wait'] += 1
        if live_after == st['target']:
            return
        if ev['t0'] >= st['t_need']:
            st['after'] += 1
        if st['after'] >= LIVENESS_SLACK_EVALS:
            self.fail(
                'C20:no-convergence' + (':monitor-config-not-watched'
                                        if stale_cfg else '') +
                (':via-recreated-while-rewatching-after-flap'
                 if app in self.recreated_in_flap else ''),
                '%s: target %d in ZooKeeper, %d live instances; diverged '
                'since evaluation %d (%+d), every watch event delivered, no '
                'failures, budget sufficient since %.3f; %d evaluations '
                'later (now %.3f) still not converged; the monitor was told '
                '%r, its own state: %r, suspended: %r' % (
                    app, st['target'], live_after, st['since'],
                    st['missing'], st['t_need'], st['after'], ev['t0'],
                    conf, ev['own'].get(app), ev['own_susp'].get(app)))

    def settle_wait(self):
        """Generator helper: seconds until every open obligation is due;
        None when nothing is open."""
        if not self.stretch:
            return None
        now = self.clock.peek()
        return max(0.0, max(st['t_need'] for st in self.stretch.values())
                   - now)

    # ------------------------------------------------------------------
    # world ops (all total)
    def apply(self, op):
        getattr(self, 'op_' + op['op'])(op)

    def _mon_sid(self):
        return self.mon_client.client_id[0]

    def op_deliver(self, op):
        self.zk.deliver(self._mon_sid(), int(op.get('n', 1)))

    def op_deliver_all(self, _op):
        sid = self._mon_sid()
        guard = 0
        while self.zk.pending(sid):
            self.zk.deliver(sid, 1)
            guard += 1
            if guard > 100000:
                raise HarnessError('watch delivery does not quiesce')

    def op_kill(self, op):
        """An instance finishes / is deleted by its owner."""
        live = self.live(op['app'])
        if not live:
            return
        name = live[op.get('which', 0) % len(live)]
        masterapi.delete_apps(self.admin, [name], 'owner')
        self.probes['kills'] += 1
        self.faults['instance_died'] += 1
        self.epoch += 1

    def op_spawn(self, op):
        """Somebody else starts instances of the application."""
        if op['app'] not in self.apps:
            return
        masterapi.create_apps(self.admin, op['app'], dict(GOOD_MANIFEST),
                              int(op.get('n', 1)), 'owner')
        self.probes['external_spawn'] += 1
        self.epoch += 1

    def op_mon_set(self, op):
        app = op['app']
        if app not in self.apps:
            return
        existed = self.zk.nodes.get(z.path.appmonitor(app)) is not None
        count = op.get('count')
        if count is None and not existed:
            return                    # (the API refuses a create without one)
        if not existed and app in self.deleted_in_flap:
            self.deleted_in_flap.discard(app)
            if self._flap_window():
                # deleted and created again while the monitor was still
                # re-reading after a reconnect (provenance of the recorded
                # finding, see known_findings.json)
                self.recreated_in_flap.add(app)
        # what the administrator has asked for, by the update verb's own
        # contract: a key that is not sent keeps its value
        want = dict(self.want.get(app) or {'count': None, 'policy': None}) \
            if existed else {'count': None, 'policy': None}
        if count is not None:
            want['count'] = int(count)
        if op.get('policy') is not None:
            want['policy'] = op['policy']
        self.want[app] = want
        masterapi.update_appmonitor(
            self.admin, app, int(count) if count is not None else None,
            op.get('policy'))
        if not existed and app in self.ever_monitored:
            self.probes['monitor_recreated'] += 1
        self.ever_monitored.add(app)
        self.epoch += 1

    def op_mon_del(self, op):
        app = op['app']
        if self.zk.nodes.get(z.path.appmonitor(app)) is None:
            return
        self.want.pop(app, None)
        if self._flap_window():
            self.deleted_in_flap.add(app)
        masterapi.delete_appmonitor(self.admin, app)
        self.probes['monitor_deleted'] += 1
        self.told.susp_safe.pop(app, None)
        self.epoch += 1

    def op_rest_fail(self, op):
        if op['kind'] not in FAIL_KINDS:
            raise HarnessError('unknown failure kind %r' % (op['kind'],))
        kind = op['kind']
        if kind == 'zk_lost_reply':
            kind = 'zk_lost_reply:%d' % int(op.get('at', 1))
        self.fail_queue.extend([kind] * int(op.get('n', 1)))
        self.epoch += 1

    def op_rest_heal(self, _op):
        del self.fail_queue[:]

    def op_app_config(self, op):
        if op['app'] not in self.apps:
            return
        self.admin_apps.state[op['app']] = op['state']
        if op['state'] != 'ok':
            self.faults['app_unconfigured'] += 1
        self.epoch += 1

    def op_advance(self, op):
        self.clock.advance(float(op['dt']))
        if op['dt'] >= 1800:
            self.faults['clock_jump'] += 1

    def op_eval(self, _op):
        """Marker: the simulator step ends, the loop evaluates once."""

    def op_restart(self, _op):
        self.faults['monitor_restart'] += 1
        self.epoch += 1

    def _flap_window(self):
        if self.flap_open and (self.mon_client is None or
                               not self.zk.pending(self._mon_sid())):
            self.flap_open = False
        return self.flap_open

    def op_conn_flap(self, _op):
        """The monitor's connection to ZooKeeper drops and comes back, the
        session survives.  Nothing in the world changes and the monitor is
        told nothing: the reference buckets and suspensions stay as they
        are (no new epoch for the liveness clause either)."""
        if self.mon_client is None:
            return
        sid = self._mon_sid()
        before = self.zk.pending(sid)
        if self.zk.flap(sid) is None:
            return
        # until everything the reconnect queued (the recipes' re-reads) has
        # been delivered the monitor is re-establishing its watches
        self.flap_open = True
        self.faults['conn_flap'] += 1
        self.probes['conn_flaps'] += 1
        self.probes['flap_events_queued'] += self.zk.pending(sid) - before
        now = self.clock.peek()
        short = False
        for name in sorted(self.told.bucket):
            bucket = self.told.bucket[name]
            bucket['flaps'] += 1
            if self.told.tokens(name, now) < bucket['cap'] - 1.0:
                short = True
        if short:
            # (a refill here would show)
            self.probes['conn_flaps_budget_short'] += 1


# ---------------------------------------------------------------------------
# generation

OP_WEIGHTS = [
    ('eval', 30), ('deliver', 10), ('deliver_all', 6), ('kill', 18),
    ('spawn', 4), ('mon_set', 9), ('mon_del', 2.5), ('mon_bounce', 1.5),
    ('rest_fail', 5), ('app_config', 1.5), ('advance', 7), ('restart', 0.7),
    ('churn', 3), ('scale_in', 2.5), ('conn_flap', 2), ('flap_drained', 2),
]
ADVANCES = [2.0, 30.0, 120.0, 299.0, 301.0, 600.0, 900.0, 1800.0, 3600.0,
            7200.0]


class Generator:
    def __init__(self, config, streams):
        self.config = config
        self.rng = streams.get('gen')
        self.sched = streams.get('sched')
        self.fault = streams.get('fault')
        self.follow = []
        self.script = None       # an adaptive scenario in progress
        self.emitted = 0
        self.phase = 'main'
        self.rounds = 0
        self.quiet_rounds = 0
        self.weights = [(k, w * config['wmul'].get(k, 1.0))
                        for k, w in OP_WEIGHTS]

    def next_op(self, world):
        op = self._next(world)
        if op is not None:
            self.emitted += 1
        return op

    def _next(self, world):
        if self.follow:
            return self.follow.pop(0)
        if self.script is not None:
            op = next(self.script, None)
            if op is not None:
                return op
            self.script = None
        if self.phase == 'main':
            if self.emitted < self.config['n_ops']:
                for _ in range(30):
                    kind = rngmod.weighted(self.rng, self.weights)
                    op = getattr(self, 'g_' + kind)(world)
                    if op is not None:
                        return op
                return {'op': 'eval'}
            if not self.config['settle']:
                return None
            self.phase = 'settle'
            self.follow.append({'op': 'rest_heal'})
            for app in world.apps:
                if world.admin_apps.state.get(app) != 'ok':
                    self.follow.append({'op': 'app_config', 'app': app,
                                        'state': 'ok'})
            self.follow.extend([{'op': 'deliver_all'}, {'op': 'eval'}])
            return self.follow.pop(0)
        # settle: prompt delivery, no failures, no world changes
        self.rounds += 1
        if self.rounds > self.config['settle_rounds']:
            return None
        wait = world.settle_wait()
        if wait is None:
            self.quiet_rounds += 1
            if self.quiet_rounds > 2:
                return None
        else:
            self.quiet_rounds = 0
            if wait > 0:
                self.follow.append({'op': 'advance',
                                    'dt': round(wait + 0.5, 3)})
        self.follow.extend([{'op': 'deliver_all'}, {'op': 'eval'}])
        return self.follow.pop(0)

    # -- op kinds
    def _app(self, world):
        return self.rng.choice(world.apps)

    def _count(self):
        hi = self.config['count_hi']
        return self.rng.choice([0, 1, 1, 2, 2, 3, hi, self.rng.randint(0, hi)])

    def g_eval(self, world):
        if self.sched.random() < self.config['p_prompt']:
            self.follow.append({'op': 'eval'})
            return {'op': 'deliver_all'}
        return {'op': 'eval'}

    def g_deliver(self, world):
        if not world.zk.pending(world._mon_sid()):   # pylint: disable=W0212
            return None
        return {'op': 'deliver', 'n': self.sched.choice([1, 1, 2, 3, 5])}

    def g_deliver_all(self, world):
        return {'op': 'deliver_all'}

    def g_kill(self, world):
        apps = [a for a in world.apps if world.live(a)]
        if not apps:
            return None
        app = self.rng.choice(apps)
        return {'op': 'kill', 'app': app,
                'which': self.rng.randint(0, len(world.live(app)) - 1)}

    def g_spawn(self, world):
        return {'op': 'spawn', 'app': self._app(world),
                'n': self.rng.choice([1, 1, 2, 3])}

    def g_mon_set(self, world):
        return {'op': 'mon_set', 'app': self._app(world),
                'count': self._count(),
                'policy': self.rng.choice([None, None, 'fifo', 'lifo',
                                           'lifo'])}

    def g_mon_del(self, world):
        apps = [a for a in world.apps if world.zk_monitor(a) is not None]
        if not apps:
            return None
        return {'op': 'mon_del', 'app': self.rng.choice(apps)}

    def g_mon_bounce(self, world):
        """Delete and re-create right away (a re-deployment script)."""
        op = self.g_mon_del(world)
        if op is None:
            return None
        if self.sched.random() < 0.4:
            self.follow.append({'op': 'deliver',
                                'n': self.sched.choice([1, 2])})
        self.follow.append({'op': 'mon_set', 'app': op['app'],
                            'count': self._count(),
                            'policy': self.rng.choice([None, 'fifo',
                                                       'lifo'])})
        return op

    def g_rest_fail(self, world):
        op = {'op': 'rest_fail', 'kind': self.fault.choice(FAIL_KINDS),
              'n': self.fault.choice([1, 1, 2, 3])}
        if op['kind'] == 'zk_lost_reply':
            op['at'] = self.fault.choice([1, 1, 2, 3, 4])
        return op

    def g_app_config(self, world):
        app = self._app(world)
        cur = world.admin_apps.state.get(app)
        state = 'ok' if cur != 'ok' else self.fault.choice(['absent',
                                                            'invalid'])
        return {'op': 'app_config', 'app': app, 'state': state}

    def g_advance(self, world):
        return {'op': 'advance', 'dt': self.rng.choice(ADVANCES)}

    def g_restart(self, world):
        return {'op': 'restart'}

    def g_churn(self, world):
        """Instances of one application keep dying while the monitor keeps
        up: the sequence that drains a token bucket."""
        apps = [a for a in world.apps if world.zk_monitor(a) is not None and
                world.zk_monitor(a)[0] > 0]
        if not apps:
            return None
        app = self.rng.choice(apps)
        for _ in range(self.rng.randint(2, 8)):
            for _k in range(self.rng.choice([1, 1, 2, 3])):
                self.follow.append({'op': 'kill', 'app': app,
                                    'which': self.rng.randint(0, 7)})
            if self.fault.random() < 0.12:
                self.follow.append({'op': 'conn_flap'})
            self.follow.extend([{'op': 'deliver_all'}, {'op': 'eval'}])
            if self.rng.random() < 0.3:
                self.follow.append({'op': 'advance',
                                    'dt': self.rng.choice([5.0, 60.0,
                                                           400.0])})
        return {'op': 'deliver_all'}

    def g_conn_flap(self, world):
        return {'op': 'conn_flap'}

    def g_flap_drained(self, world):
        """Instances of one application keep dying until its monitor is
        rate limited, then the monitor's connection flaps, then they keep
        dying (staged, adaptive: the drain looks at the reference bucket)."""
        apps = [a for a in world.apps if world.zk_monitor(a) is not None and
                world.zk_monitor(a)[0] > 0]
        if not apps:
            return None
        self.script = self._flap_drained(world, self.rng.choice(apps))
        return next(self.script)

    def _flap_drained(self, world, app):
        rng = self.rng
        prompt = [{'op': 'deliver_all'}, {'op': 'eval'}]

        def kill():
            return {'op': 'kill', 'app': app, 'which': rng.randint(0, 7)}

        for op in prompt:
            yield op
        for _ in range(6):
            mon = world.zk_monitor(app)
            tok = world.told.tokens(app, world.clock.peek())
            if mon is None or mon[0] <= 0 or tok is None:
                return
            if tok < 1.0:
                break
            for _k in range(max(1, min(mon[0], int(tok), 12))):
                yield kill()
            for op in prompt:
                yield op
        else:
            return         # (failures pending, suspended, not configured)
        if rng.random() < 0.6:
            # a death the monitor cannot make up for: rate limited
            yield kill()
            for op in prompt:
                yield op
        if rng.random() < 0.3:
            yield {'op': 'advance', 'dt': rng.choice([5.0, 60.0, 400.0])}
        yield {'op': 'conn_flap'}
        if self.sched.random() < 0.75:
            yield {'op': 'deliver_all'}
        else:
            yield {'op': 'deliver', 'n': self.sched.choice([1, 2, 3, 5])}
        for _ in range(rng.randint(1, 3)):
            for _k in range(rng.choice([1, 1, 2])):
                yield kill()
            for op in prompt:
                yield op


    def g_scale_in(self, world):
        """Several instances of one application with gaps in their ids,
        then the target is lowered below what is running."""
        app = self._app(world)
        mon = world.zk_monitor(app)
        policy = self.rng.choice([None, 'fifo', 'lifo', 'lifo'])
        nlive = len(world.live(app))
        add = self.rng.randint(2, 5)
        ops = [{'op': 'spawn', 'app': app, 'n': add}]
        for _ in range(self.rng.choice([0, 1, 1, 2])):
            ops.append({'op': 'kill', 'app': app,
                        'which': self.rng.randint(0, nlive + add - 1)})
        if self.rng.random() < 0.5:
            ops.append({'op': 'spawn', 'app': app,
                        'n': self.rng.randint(1, 3)})
        ops.append({'op': 'mon_set', 'app': app,
                    'count': self.rng.randint(1, max(1, nlive + add - 2)),
                    # (else: a count-only update, the policy stays)
                    'policy': policy if mon is None or
                    self.rng.random() < 0.6 else None})
        ops.append({'op': 'deliver_all'} if self.sched.random() < 0.8
                   else {'op': 'deliver', 'n': self.sched.choice([1, 2, 3])})
        ops.append({'op': 'eval'})
        self.follow.extend(ops[1:])
        return ops[0]


def make_config(_prop, tier, rng):
    big = tier == 'thorough'
    napps = rng.choice([1, 1, 2, 3])
    cfg = {
        'start': 1700000000.0 + rng.randint(0, 7 * 86400),
        'apps': list(ALL_APPS[:napps]),
        'count_hi': rng.choice([2, 3, 4, 6, 12] + ([40] if big else [])),
        'n_ops': rng.randint(20, 160 if big else 90),
        'p_prompt': rng.choice([0.0, 0.3, 0.7, 1.0, 1.0]),
        'settle': rng.random() < 0.85,
        'settle_rounds': 14,
    }
    wmul = {}
    for key, _w in OP_WEIGHTS:
        if key in ('eval', 'kill', 'mon_set', 'churn'):
            wmul[key] = rng.choice([0.7, 1.0, 1.5])
        else:
            wmul[key] = rng.choice([0.0, 0.5, 1.0, 1.0, 2.0])
    cfg['wmul'] = wmul
    # ZooKeeper returns children in no particular order: for most runs the
    # simulated server uses an arbitrary fixed order derived from this value
    cfg['child_order'] = rng.randint(1, 1 << 30) if rng.random() < 0.7 \
        else None
    return cfg


# ---------------------------------------------------------------------------

class MonitorSim(enginemod.Engine):
    name = 'monitorsim'
    serves = ('C20',)
    real_components = (
        'treadmill.sproc.appmonitor._run_sync (the whole while-True loop, '
        'its ChildrenWatch closures on /scheduled and /app-monitors, the '
        'per-monitor data watch closure, make_alerter) run as is by '
        'inversion of control',
        'treadmill.sproc.appmonitor.reevaluate',
        'treadmill.zkwatchers.ExistingDataWatch',
        'kazoo.recipe.watchers.ChildrenWatch (bound to the simulated client)',
        'treadmill.utils.exit_on_unhandled',
        'treadmill.zkutils, treadmill.yamlwrapper',
        'treadmill.scheduler.masterapi (update_appmonitor, delete_appmonitor,'
        ' get_suspended_appmonitors, create_apps, delete_apps, '
        'get_scheduled_stats)',
        'treadmill.api.instance.API.create / bulk_delete incl. JSON-schema '
        'validation (count 1..1000), quota checks, _validate',
        'treadmill.trace.post_zk',
        'treadmill.restclient exception classes and _handle_error',
    )
    stub_components = (
        'ZooKeeper: simkit.zk (single copy, sessions, one-shot watches, '
        'per-session ordered event queues; delivery lag is an op; a '
        'connection flap is an op: state listeners see SUSPENDED then '
        'CONNECTED, the watch callbacks of the client are reset with a NONE '
        'event as kazoo does, nothing happens in between)',
        'clock (virtual); time.sleep of the loop is the simulator step',
        'restclient.post transport + flask/restplus glue of '
        'rest/api/instance.py (URL and payload parsing, exception -> HTTP '
        'status table re-stated from rest/error_handlers.py); the retry '
        'loop inside restclient.post is not executed: a failed POST is its '
        'final outcome (before the request was applied, or after = lost ack)',
        'LDAP application store (admin.application().get) and the site '
        'instance plugin adding proid/environment',
        'alert.create (recorder)',
        'context.GLOBAL (zk.conn = the monitor session, cell)',
        'leader election lock of sproc.appmonitor.top (one monitor at a '
        'time)',
    )

    def level(self, prop):
        return 'exploration'

    def rule(self, prop):
        return (
            'per run: 1-3 applications, a seeded op mix (swarm weights) of '
            'monitor create/reconfigure/delete/re-create, instances dying or '
            'being started by others, REST failures of five kinds (three '
            'suspending ones, connection error before apply, lost ack) plus '
            'naturally arising 404/400 (application unconfigured / invalid '
            'manifest), clock advances from 2 s to 2 h, watch-delivery lag '
            '(how many queued events the monitor session receives before '
            'each evaluation), monitor process restarts, flaps of the '
            'monitor\'s ZooKeeper connection with the session surviving (also '
            'staged: instances die until the monitor is rate limited, the '
            'connection flaps, instances keep dying); then a settle '
            'suffix with failures stopped and prompt delivery in which the '
            'clock is advanced to the instant the reference budget '
            'suffices.  Every evaluation of the real loop is checked.  '
            'non-trivial: an evaluation that issued a POST while the '
            'reference token bucket was the binding constraint '
            '(floor(tokens) < missing) or whose POST failed; a run is '
            'non-trivial if it has at least one such evaluation '
            '(distinct_nontrivial counts distinct op traces of such runs)')

    def assumptions(self, prop):
        return [
            'ZooKeeper is a single-copy linearizable store; watch events '
            'are delivered in order per session; a watch callback runs '
            'atomically with respect to evaluations',
            'one monitor process at a time (the election lock is not '
            'simulated)',
            'restclient.post either fails before the request is applied or '
            'the request is applied exactly once (its internal retry of 5xx /'
            ' connection errors is not simulated)',
            'token-bucket reference (independent, continuous in virtual '
            'time): rate 2*target/hour, request <= floor(tokens) and '
            'non-negativity from the statement; burst (cap) 2*target, full '
            'bucket at every (re)configuration event delivered to the '
            'monitor (any write to the monitor node, same count or not) and '
            'at process start (a connection flap is neither: no write, '
            'nothing new is delivered; the same watch handing over the '
            'version it handed over last does not refill the reference), '
            'only acknowledged creations charged (failed '
            'and lost-ack creations are not), refill continues while '
            'suspended, 300 s suspension after 404/400/424 from the code '
            '(sproc/appmonitor.py:32-36,80-97,116-119,144-162,254-260); no '
            'boundary is left open beyond 1e-6 tokens of float noise',
            'all bounds are stated in what the monitor has been told through '
            'its watches (children lists and node data as delivered), not '
            'in the ZooKeeper truth: acting on a stale view is legal; a '
            'monitor counts as deleted for the monitor once a children list '
            'without it was delivered',
            'bounded liveness: while every queued watch event is delivered '
            'before each evaluation, no failure is pending, the application '
            'is configured and the world does not change, the live count '
            'must equal the target in ZooKeeper at the latest at the third '
            'evaluation that starts after max(now, end of suspension) + '
            'max(0, missing - tokens)/rate',
        ]

    def quick_runs(self, prop):
        return 6000

    def make_config(self, prop, tier, rng):
        return make_config(prop, tier, rng)

    def shrink_candidates(self, config, ops):
        used = [a for a in config['apps']
                if any(op.get('app') == a for op in ops)]
        if used and len(used) < len(config['apps']):
            yield dict(config, apps=used), ops

    def execute(self, prop, config, seed, ops=None, keep_log=False):
        res = enginemod.Result()
        log = logmod.EventLog(keep=keep_log)
        log.ev('seed', seed, prop)
        clock = clockmod.Clock(config['start'])
        saved = {
            'sys_exit': utils.sys_exit,
            'restclient': appmonitor.restclient,
            'alert': appmonitor.alert,
            'zkwatchers': appmonitor.zkwatchers,
            'context': appmonitor.context,
            'reevaluate': appmonitor.reevaluate,
            'api_context': instapi.context,
        }
        clock.install()
        try:
            world = World(config, clock, log)
            world.real_reevaluate = saved['reevaluate']
            utils.sys_exit = _sys_exit
            appmonitor.restclient = _RestclientShim(world.cellapi)
            appmonitor.alert = types.SimpleNamespace(create=world.on_alert)
            appmonitor.zkwatchers = types.SimpleNamespace(
                ExistingDataWatch=world.existing_data_watch)
            appmonitor.reevaluate = world.reevaluate
            instapi.context = types.SimpleNamespace(
                GLOBAL=types.SimpleNamespace(
                    zk=types.SimpleNamespace(conn=world.api_client),
                    admin=types.SimpleNamespace(
                        application=lambda: world.admin_apps)))
            t_begin = clock.peek()
            executed = []
            gen = Generator(config, rngmod.Streams(seed)) \
                if ops is None else None
            source = iter(ops) if ops is not None else None

            def on_sleep(_seconds):
                if world.in_step:
                    raise HarnessError('re-entrant sleep')
                world.in_step = True
                try:
                    while True:
                        if world.violation is not None:
                            raise SimDone()
                        op = gen.next_op(world) if gen is not None \
                            else next(source, None)
                        if op is None:
                            raise SimDone()
                        world.step += 1
                        executed.append(op)
                        log.ev('op', op)
                        world.apply(op)
                        if op['op'] == 'eval':
                            return
                        if op['op'] == 'restart':
                            raise _Restart()
                finally:
                    world.in_step = False

            clock.on_sleep = on_sleep
            while True:
                try:
                    world.run_monitor()
                except SimDone:
                    break
                except _Restart:
                    continue
                except _HarnessAbort as abort:
                    raise HarnessError('below the code under test: %r'
                                       % (abort.args[0],)) from abort.args[0]
                except SimProcessExit as err:
                    # exit_on_unhandled in a watch callback: the process is
                    # gone, the supervisor starts a new one
                    world.died += 1
                    world.probes['monitor_died'] = \
                        world.probes.get('monitor_died', 0) + 1
                    world.cur_eval = None
                    log.ev('monitor-died', repr(err.code))
                    if world.died > 5:
                        world.fail('C20:monitor-keeps-dying',
                                   'exit_on_unhandled fired %d times'
                                   % world.died)
                        break
                except Exception as err:  # pylint: disable=broad-except
                    if isinstance(err, HarnessError):
                        raise
                    tb = err.__traceback__
                    while tb.tb_next is not None:
                        tb = tb.tb_next
                    fname = tb.tb_frame.f_code.co_filename
                    if ('/simkit/' in fname or '/engines/' in fname) and \
                            not isinstance(
                                err, kazoo.exceptions.KazooException):
                        raise
                    world.fail('C20:monitor-crashed:%s' % type(err).__name__,
                               '_run_sync raised %r at %s:%d' % (
                                   err, tb.tb_frame.f_code.co_filename,
                                   tb.tb_lineno))
                    break
            res.ops = executed
            res.violation = world.violation
            res.steps = world.step
            res.sim_s = clock.peek() - t_begin
            res.faults = dict(world.faults)
            res.probes = dict(world.probes)
            res.fps = world.fps
            res.nontrivial = world.nontrivial
            res.trace_fp = logmod.fingerprint(executed)
            if world.violation is not None:
                log.ev('violation', world.violation['sig'])
            res.digest = log.digest()
            res.log_lines = log.lines if keep_log else None
        finally:
            clock.on_sleep = None
            clock.uninstall()
            utils.sys_exit = saved['sys_exit']
            appmonitor.restclient = saved['restclient']
            appmonitor.alert = saved['alert']
            appmonitor.zkwatchers = saved['zkwatchers']
            appmonitor.context = saved['context']
            appmonitor.reevaluate = saved['reevaluate']
            instapi.context = saved['api_context']
        return res


ENGINE = MonitorSim()
