import json, sys, subprocess
pid = sys.argv[1]
base=subprocess.run(['/venv/bin/python','/tmp/seed_prompt.py',pid],capture_output=True,text=True).stdout
base=base.replace('/tmp/seed-%s'%pid, '/tmp/seed14-%s'%pid)
used=[l for l in open('/tmp/used_ideas.txt') if l.startswith(pid+':')][0].strip()
extra=("\n\nADDITIONAL REQUIREMENT for this round: earlier attempts already used these ideas — do NOT repeat them or close variants: %s. "
 "IMPORTANT: use `git apply -R seeded_out/patch.diff` / `git apply seeded_out/patch.diff` to switch between the changed and unchanged tree - never `git stash` (the stash is shared with other worktrees). Find a DIFFERENT mechanism, anywhere in the files the property is anchored in (or code they call): e.g. an error/exception path, a boundary value (zero, None, empty list, equal timestamps), a stale value carried across events or restarts, an ordering of two steps, unit/format handling, a condition that is true only after a specific sequence. It must still be subtle and realistic.") % used
print(base+extra)
