"""Oracles of C14 / C16 (netsim).

Ground truth is what the harness itself declared (reference maps entry ->
owner, who is alive, what each container's start added) and what is on disk /
in the fake ip-set tables, read with the *real* os module - never the
bookkeeping of the code under test.
"""

import os


def read_links(path):
    """{entry name: basename of the link target (None for a plain file)}."""
    out = {}
    try:
        names = os.listdir(path)
    except FileNotFoundError:
        return out
    for name in names:
        full = os.path.join(path, name)
        try:
            out[name] = os.path.basename(os.readlink(full))
        except OSError:
            out[name] = None
    return out


def compare(kind, actual, expected, ctx):
    """Compare the directory (`actual`) with the reference (`expected`).

    Both map entry key -> owner.  ctx: dict(op=<op kind>, cls=<'create' |
    'release-owner' | 'release-nonowner' | 'gc' | 'init' | 'other'>,
    pre=<reference before the op>, live=<callable owner -> bool>).
    Returns None or (sig, detail).
    """
    cls = ctx.get('cls', 'other')
    pre = ctx.get('pre', {})
    live = ctx.get('live')
    for key in sorted(set(actual) | set(expected), key=repr):
        have = actual.get(key, _ABSENT)
        want = expected.get(key, _ABSENT)
        if have == want:
            continue
        if have is not _ABSENT and want is not _ABSENT:
            return ('C14:%s-two-owners' % kind,
                    '%s %r is held by %r but the directory says %r after %s'
                    % (kind, key, want, have, ctx.get('op')))
        if have is _ABSENT:
            if cls == 'gc':
                return ('C14:gc-removed-live:%s' % kind,
                        'garbage collection removed %s %r whose owner %r '
                        'exists' % (kind, key, want))
            if cls == 'release-nonowner' and want == ctx.get('by'):
                return ('C14:release-removed-unrelated:%s' % kind,
                        '%s %r of %r was removed by %s although it was not '
                        'named' % (kind, key, want, ctx.get('op')))
            if cls == 'release-nonowner':
                return ('C14:nonowner-release-took-effect:%s' % kind,
                        '%s %r held by %r was released by %r' % (
                            kind, key, want, ctx.get('by')))
            if cls == 'init':
                return ('C14:initialize-removed-foreign:%s' % kind,
                        'initialize of one pool removed %s %r held by %r, '
                        'which another pool handed out' % (kind, key, want))
            if cls == 'create' and key not in pre:
                return ('C14:created-entry-missing:%s' % kind,
                        '%s %r was acknowledged for %r but is not in the '
                        'directory' % (kind, key, want))
            return ('C14:entry-lost:%s:%s' % (kind, ctx.get('op')),
                    '%s %r held by %r disappeared during %s' % (
                        kind, key, want, ctx.get('op')))
        # present on disk, absent in the reference
        if cls == 'gc' and key in pre and live is not None and \
                not live(pre[key]):
            return ('C14:gc-kept-dead:%s' % kind,
                    'garbage collection kept %s %r whose owner %r does not '
                    'exist' % (kind, key, pre[key]))
        if cls == 'release-owner' and key in pre:
            return ('C14:owner-release-ignored:%s' % kind,
                    '%s %r was released by its owner %r but is still there'
                    % (kind, key, pre[key]))
        return ('C14:unexpected-entry:%s:%s' % (kind, ctx.get('op')),
                '%s %r (owner %r) appeared during %s' % (
                    kind, key, have, ctx.get('op')))
    return None


class _Absent:
    def __repr__(self):
        return '<absent>'


_ABSENT = _Absent()


# ---------------------------------------------------------------------------
# C16

def diff_added(pre, post):
    """Entries of `post` that are not in `pre` (per section of a snapshot)."""
    out = {}
    for section in ('rules', 'endpoints'):
        out[section] = {k: v for k, v in post[section].items()
                        if k not in pre[section]}
    added = []
    for name, entries in post['ipsets'].items():
        old = set(pre['ipsets'].get(name, ()))
        added.extend((name, e) for e in entries if e not in old)
    out['ipsets'] = added
    return out


def finish_checks(name, pre, post, removed_foreign, complete, creators):
    """Checks after finish of container `name`.  Returns None or (sig, det)."""
    for section, label in (('rules', 'rule'), ('endpoints', 'endpoint')):
        for key in sorted(pre[section]):
            if key in post[section]:
                if post[section][key] != pre[section][key]:
                    return ('C16:finish-changed-owner:%s' % label,
                            '%s %r changed owner %r -> %r during the finish '
                            'of %s' % (label, key, pre[section][key],
                                       post[section][key], name))
                continue
            if pre[section][key] != name:
                return ('C16:finish-removed-foreign:%s' % label,
                        'finish of %s removed %s %r owned by %r' % (
                            name, label, key, pre[section][key]))
    if removed_foreign:
        sname, entry, who, _by = removed_foreign[0]
        return ('C16:finish-removed-foreign:ipset',
                'finish of %s removed %r from ip-set %s, added by the start '
                'of %r' % (name, entry, sname, who))
    if not complete:
        return None
    for section, label in (('rules', 'rule'), ('endpoints', 'endpoint')):
        left = sorted(k for k, o in post[section].items() if o == name)
        if left:
            return ('C16:leftover-after-finish:%s' % label,
                    'after the finish of %s its %s(s) %r remain' % (
                        name, label, left))
    left = sorted((s, e) for (s, e), who in creators.items()
                  if name in who and e in post['ipsets'].get(s, ()))
    if left:
        return ('C16:leftover-after-finish:ipset',
                'after the finish of %s the ip-set entries %r added by its '
                'start remain' % (name, left))
    return None


def first_difference(initial, final):
    """Which part of the host state differs (None if equal)."""
    for section, label in (('rules', 'rule'), ('endpoints', 'endpoint'),
                           ('vips', 'vip')):
        if initial[section] != final[section]:
            extra = sorted(set(final[section]) - set(initial[section]))
            missing = sorted(set(initial[section]) - set(final[section]))
            return (label, 'extra %r missing %r' % (extra, missing))
    if initial['ipsets'] != final['ipsets']:
        for name in sorted(set(initial['ipsets']) | set(final['ipsets'])):
            a = initial['ipsets'].get(name)
            b = final['ipsets'].get(name)
            if a != b:
                return ('ipset', 'ip-set %s: initially %r, finally %r' % (
                    name, a, b))
    return None
