"""Oracles of C13 (nodesim).

Ground truth is what the harness itself declared and observed at the seams:

* ``cache``:      instance -> dict(gen, ver, bad, ctime_us, ino, uname) - what
                  the cache writer put into cache/ (generation numbers are the
                  harness's own, they do not depend on the unique-id formula);
* ``containers``: container directory name -> dict(inst, gen, configures,
                  finished, had_running, failed, last_configure) - recorded by
                  the wrapper around ``configure()`` (which instance/generation
                  the event file belonged to when the directory was made);
* ``partial``:    same shape as ``containers`` (flag ``partial``): directories
                  that appeared in apps/ during a ``configure()`` call that did
                  not complete (returned None or raised), found by listing
                  apps/ before and after the call;
* the links themselves, read from running/ and cleanup/ with the real ``os``;
* ``hist``:       container name -> list of link operations observed at the
                  ``treadmill.fs.replace`` / ``fs.symlink_safe`` seam:
                  dict(ev='link'|'unlink'|'overwritten', where='running'|
                  'cleanup', by=<which real function did it, in which
                  context>).  Used for the *provenance* part of a signature
                  only (``:via-...``), never for the verdict.

Nothing of the manager's own bookkeeping is consulted.  Every function
returns ``None`` or ``(sig, detail)``; signatures carry no instance values.
A signature is ``C13:<clause>[:<when>]:via-<mechanism>``; a mechanism that is
not one of the recognised ones is ``via-other``.
"""

import os

MARKERS = ('exitinfo', 'aborted', 'oom')
_KIND_ORDER = {'running': 0, 'cleanup': 1}

# `by` labels the engine produces (anything else becomes 'other')
BY_LABELS = (
    'sync', 'terminate-in-sync', 'terminate-on-deleted-event',
    'configure-in-sync', 'configure-on-created-event',
    'tombstone-of-own-container', 'tombstone-of-older-generation',
    'tombstone-of-earlier-incarnation',
    'tombstone-of-other-container', 'node-restart', 'cleanup',
)


def _by(label):
    return label if label in BY_LABELS else 'other'


def read_links(running_dir, cleanup_dir, apps_dir):
    """{(kind, link name): container name} for every symlink in both dirs.

    A target outside apps/ is kept as the raw link text (never expected)."""
    out = {}
    for kind, path in (('running', running_dir), ('cleanup', cleanup_dir)):
        try:
            names = sorted(os.listdir(path))
        except FileNotFoundError:
            continue
        for name in names:
            if name.startswith('.'):
                # s6-svscan, glob('*') and Cleanup all skip dot names (a
                # left-over temporary link of fs.symlink_safe)
                continue
            full = os.path.join(path, name)
            try:
                target = os.readlink(full)
            except OSError:
                continue          # not a link
            if os.path.dirname(target) == apps_dir:
                target = os.path.basename(target)
            out[(kind, name)] = target
    return out


def markers(apps_dir, cname):
    """Which of exitinfo / aborted / oom exist in the container."""
    data = os.path.join(apps_dir, cname, 'data')
    return [m for m in MARKERS if os.path.exists(os.path.join(data, m))]


def is_terminated(apps_dir, cname):
    return os.path.exists(os.path.join(apps_dir, cname, 'data',
                                       'terminated'))


def container_exists(apps_dir, cname):
    return os.path.isdir(os.path.join(apps_dir, cname))


# -- provenance helpers ----------------------------------------------------------

def _last(hist, cname, ev, where=None):
    for item in reversed(hist.get(cname, ())):
        if item['ev'] == ev and (where is None or item['where'] == where):
            return item
    return None


def _newest_link(hist, cname):
    item = _last(hist, cname, 'link')
    if item is None:
        return 'via-other'
    return 'via-%s-made-%s-link' % (_by(item['by']), item['where'])


def _siblings(links, containers, inst, gen):
    """Where containers of OTHER generations of `inst` are linked."""
    out = set()
    for (kind, _name), target in links.items():
        rec = containers.get(target)
        if rec is not None and rec['inst'] == inst and rec['gen'] != gen:
            out.add(kind)
    return out


# -- after every handler call ------------------------------------------------

def two_links(links, apps_dir, hist):
    """A configured container is the target of at most one link."""
    by_target = {}
    for (kind, name), target in sorted(links.items()):
        by_target.setdefault(target, []).append((kind, name))
    for target in sorted(by_target):
        refs = by_target[target]
        if len(refs) < 2 or not container_exists(apps_dir, target):
            continue
        kinds = sorted((k for k, _n in refs), key=_KIND_ORDER.get)
        return ('C13:container-two-links:%s:%s' % (
            '+'.join(kinds[:2]), _newest_link(hist, target)),
                'container %s is the target of %d links: %s' % (
                    target, len(refs),
                    ', '.join('%s/%s' % r for r in refs)))
    return None


def finished_restarted(old, new, apps_dir, hist):
    """No running link is created onto a container that already holds
    exitinfo / aborted / oom."""
    for (kind, name), target in sorted(new.items()):
        if kind != 'running' or old.get((kind, name)) == target:
            continue
        found = markers(apps_dir, target)
        if found:
            item = _last(hist, target, 'link', 'running')
            via = 'via-' + _by(item['by']) if item else 'via-other'
            return ('C13:finished-container-restarted:' + via,
                    'running/%s was created onto container %s in which %s '
                    'already exists' % (name, target, '/'.join(found)))
    return None


# -- after a synchronisation ---------------------------------------------------

def _gen_finished(containers, inst, gen):
    for rec in containers.values():
        if rec['inst'] == inst and rec['gen'] == gen and rec['finished']:
            return True
    return False


def _why_missing(links, containers, hist, inst, gen):
    """How did the current generation come not to be linked in running/?"""
    mine = sorted(c for c, rec in containers.items()
                  if rec['inst'] == inst and rec['gen'] == gen)
    sib = _siblings(links, containers, inst, gen)
    if not mine:
        if 'running' in sib:
            return 'via-not-configured-older-generation-running'
        if 'cleanup' in sib:
            return 'via-not-configured-older-generation-in-cleanup'
        return 'via-other'
    for cname in mine:
        item = _last(hist, cname, 'unlink', 'running')
        if item is None:
            continue
        by = _by(item['by'])
        if by == 'node-restart':
            if 'running' in sib:
                return 'via-not-relinked-older-generation-running'
            if 'cleanup' in sib:
                return 'via-not-relinked-older-generation-in-cleanup'
            return 'via-other'
        return 'via-' + by
    return 'via-other'


def follow(links, cache, containers, failed, when, hist):
    """running/ corresponds to the cached manifests that can be configured.

    ``failed``: set of (inst, gen) for which an injected configure failure
    fired (the manager is expected to drop such a cache entry)."""
    running = {name: target for (kind, name), target in links.items()
               if kind == 'running'}
    for inst in sorted(running):
        target = running[inst]
        rec = containers.get(target)
        ent = cache.get(inst)
        if ent is None:
            return ('C13:running-not-matching-cache:extra:%s:%s' % (
                when, _newest_link(hist, target)),
                    'running/%s -> %s but the cache has no entry for %s' % (
                        inst, target, inst))
        if rec is None or rec['inst'] != inst or rec['gen'] != ent['gen']:
            return ('C13:running-not-matching-cache:extra:%s:%s' % (
                when, _newest_link(hist, target)),
                    'running/%s -> %s (generation %s) but cache/%s is '
                    'generation %s' % (inst, target,
                                       rec['gen'] if rec else '?', inst,
                                       ent['gen']))
    for inst in sorted(cache):
        ent = cache[inst]
        if ent['bad'] or inst in running:
            continue
        if _gen_finished(containers, inst, ent['gen']):
            continue      # finished on its own: must not run again
        if (inst, ent['gen']) in failed:
            return ('C13:running-not-matching-cache:missing:%s:'
                    'via-failed-configure-kept-cache-entry' % when,
                    'configure of cache/%s (generation %s) failed, the entry '
                    'is still cached and not running' % (inst, ent['gen']))
        clash = containers.get(ent.get('uname'))
        if clash is not None and clash['gen'] != ent['gen']:
            return ('C13:running-not-matching-cache:missing:%s:%s' % (
                when, ent.get('clash') or 'via-unique-name-collision-other'),
                    'cache/%s (generation %s) is not running; the unique '
                    'name %s its (ctime, inode) give is the name of the '
                    'container of generation %s' % (
                        inst, ent['gen'], ent['uname'], clash['gen']))
        return ('C13:running-not-matching-cache:missing:%s:%s' % (
            when, _why_missing(links, containers, hist, inst, ent['gen'])),
                'cache/%s (generation %s) can be configured and never '
                'finished, but there is no running/%s' % (
                    inst, ent['gen'], inst))
    return None


def uncleaned(links, cache, containers, apps_dir, only_previously_running,
              when, hist, raced=None):
    """A container whose cache entry is gone (or belongs to a newer
    generation) is in cleanup or already removed."""
    in_cleanup = {target for (kind, _n), target in links.items()
                  if kind == 'cleanup'}
    in_running = {target for (kind, _n), target in links.items()
                  if kind == 'running'}
    for cname in sorted(containers):
        rec = containers[cname]
        if only_previously_running and not rec['had_running']:
            continue
        if not container_exists(apps_dir, cname):
            continue
        ent = cache.get(rec['inst'])
        if ent is not None and ent['gen'] == rec['gen']:
            continue
        if cname in in_cleanup or cname in in_running:
            continue      # a running one is reported as 'extra'
        lost = _last(hist, cname, 'overwritten', 'cleanup')
        if lost is not None:
            via = 'via-cleanup-link-overwritten-by-' + _by(lost['by'])
        elif rec.get('partial'):
            # the directory was made by a configure() that did not complete
            # (returned None / raised): nothing ever linked it
            via = 'via-left-by-incomplete-configure'
        elif rec['failed']:
            via = 'via-failed-configure'
        elif raced and rec['inst'] in raced:
            # the event manager changed the entry while the synchronisation
            # that handled this container was running
            via = 'via-cache-entry-%s-during-sync' % raced[rec['inst']]
        elif 'cleanup' in _siblings(links, containers, rec['inst'],
                                    rec['gen']):
            via = 'via-other-generation-in-cleanup'
        else:
            via = 'via-other'
        return ('C13:uncached-container-not-cleaned:%s:%s' % (when, via),
                'container %s (instance %s generation %s) exists, its cache '
                'entry is %s, and no cleanup link points to it' % (
                    cname, rec['inst'], rec['gen'],
                    'gone' if ent is None else
                    'generation %s' % ent['gen']))
    return None


def unchanged_set(links, cache, containers, apps_dir):
    """Running containers whose manifest is the cached one and that are not
    finished: {inst: (container, configure count, cache version,
    incarnation of the container directory)}."""
    out = {}
    for (kind, inst), target in sorted(links.items()):
        if kind != 'running':
            continue
        rec = containers.get(target)
        ent = cache.get(inst)
        if rec is None or ent is None:
            continue
        if rec['inst'] != inst or rec['gen'] != ent['gen']:
            continue
        if rec['finished'] or markers(apps_dir, target):
            continue
        if is_terminated(apps_dir, target):
            continue
        out[inst] = (target, rec['configures'], ent['ver'],
                     rec.get('incarnation'))
    return out


def disturbed(unchanged, links, cache, containers, apps_dir, when, hist):
    """Every member of `unchanged` whose cache entry is still the same and
    that did not finish meanwhile is still running, untouched."""
    for inst in sorted(unchanged):
        target, configures, ver, incarnation = unchanged[inst]
        ent = cache.get(inst)
        if ent is None or ent['ver'] != ver:
            continue
        rec = containers[target]
        if rec['finished'] or markers(apps_dir, target):
            continue
        now = links.get(('running', inst))
        if now != target:
            where = sorted('%s/%s' % k for k, t in links.items()
                           if t == target)
            item = _last(hist, target, 'unlink', 'running')
            via = 'via-' + _by(item['by']) if item else 'via-other'
            return ('C13:unchanged-container-disturbed:%s:%s' % (when, via),
                    'container %s of unchanged cache/%s was running and is '
                    'not any more (running/%s -> %s; links to it now: %s)' % (
                        target, inst, inst, now, where or 'none'))
        if is_terminated(apps_dir, target):
            return ('C13:unchanged-container-disturbed:%s:'
                    'via-marked-terminated' % when,
                    'container %s of unchanged cache/%s was marked '
                    'terminated' % (target, inst))
        if rec.get('incarnation') != incarnation:
            # same name, but the directory was cleaned up and made again:
            # what took the running link away in between?
            item = _last(hist, target, 'unlink', 'running')
            via = 'via-' + _by(item['by']) if item else 'via-other'
            return ('C13:unchanged-container-disturbed:%s:%s' % (when, via),
                    'container %s of unchanged cache/%s was handed to '
                    'cleanup, removed and configured again' % (target, inst))
        if rec['configures'] != configures:
            return ('C13:unchanged-container-disturbed:%s:via-configured-'
                    'again-%s' % (when, _by(rec['last_configure'])),
                    'container %s of unchanged cache/%s was configured '
                    'again (%d -> %d calls)' % (target, inst, configures,
                                                rec['configures']))
    return None
