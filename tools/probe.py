"""Developer helper: scan seeds / minimise one run.
usage: tools/probe.py scan <prop> <n> [pattern]   |   tools/probe.py min <prop> <index> [--log]
"""
import collections
import json
import sys
import os
sys.path.insert(0, os.path.dirname(os.path.dirname(os.path.abspath(__file__))))
import simkit
simkit.quiet_logging()
from simkit import rng, ddmin, runner
import time


def main(argv):
    mode, prop = argv[0], argv[1]
    eng = runner.get_engine(prop)
    tier = os.environ.get('VERIF_TIER', 'quick')
    base = int(os.environ.get('VERIF_SEED', '0'))
    if mode == 'scan':
        n = int(argv[2])
        pat = argv[3] if len(argv) > 3 else ''
        sigs = collections.Counter()
        first = {}
        t = time.perf_counter()
        steps = 0
        for i in range(n):
            seed = runner.run_seed(base, prop, i)
            cfg = eng.make_config(prop, tier, rng.Streams(seed).get('config'))
            r = eng.execute(prop, cfg, seed)
            steps += r.steps
            if r.violation and pat in r.violation['sig']:
                sigs[r.violation['sig']] += 1
                first.setdefault(r.violation['sig'],
                                 (i, str(r.violation['detail'])[:300]))
        print(prop, '%.1f runs/s' % (n / (time.perf_counter() - t)), steps)
        for s, c in sigs.most_common():
            print('  ', c, s, first[s])
    else:
        i = int(argv[2])
        seed = runner.run_seed(base, prop, i)
        cfg = eng.make_config(prop, tier, rng.Streams(seed).get('config'))
        r = eng.execute(prop, cfg, seed)
        if not r.violation:
            print('no violation')
            return
        sig = r.violation['sig']

        def fails(ops):
            rr = eng.execute(prop, cfg, seed, ops=ops)
            return rr.violation is not None and rr.violation['sig'] == sig
        ops, n = ddmin.ddmin(r.ops, fails, budget_s=120)
        rr = eng.execute(prop, cfg, seed, ops=ops, keep_log='--log' in argv)
        print(sig, '| tests', n, '| ops', len(r.ops), '->', len(ops))
        print(json.dumps({k: v for k, v in cfg.items() if k != 'wmul'}))
        for o in ops:
            print(json.dumps(o))
        print(rr.violation)
        if '--log' in argv:
            for line in rr.log_lines:
                print(line[:400])


main(sys.argv[1:])
