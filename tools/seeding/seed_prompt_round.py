"""usage: python seed_prompt_round.py <Cxx> <round-number>  - prints the sub-agent prompt"""
import os, subprocess, sys
HERE = os.path.dirname(os.path.abspath(__file__))
pid, rnd = sys.argv[1], sys.argv[2]
base = subprocess.run(['/venv/bin/python', os.path.join(HERE, 'seed_prompt_base.py'), pid],
                      capture_output=True, text=True).stdout
base = base.replace('/tmp/seed-%s' % pid, '/tmp/seed%s-%s' % (rnd, pid))
used = [l for l in open(os.path.join(HERE, 'used_ideas.txt')) if l.startswith(pid + ':')][0].strip()
extra = ("\n\nADDITIONAL REQUIREMENT for this round: earlier attempts already used these ideas — do NOT repeat them or close variants: %s. "
 "IMPORTANT: use `git apply -R seeded_out/patch.diff` / `git apply seeded_out/patch.diff` to switch between the changed and unchanged tree - never `git stash` (the stash is shared with other worktrees). Find a DIFFERENT mechanism, anywhere in the files the property is anchored in (or code they call): e.g. an error/exception path, a boundary value (zero, None, empty list, equal timestamps), a stale value carried across events or restarts, an ordering of two steps, unit/format handling, a condition that is true only after a specific sequence. It must still be subtle and realistic.") % used
print(base + extra + '\n\n' + open(os.path.join(HERE, 'reachability_note.txt')).read().split('\n\n\n')[-1])
