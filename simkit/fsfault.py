"""File-system seam with per-call fault points (DESIGN.md 2.5), call-level tier.

`simkit.fsseam` steps whole ops; this module goes one level down: every
*mutating file-system call* the code under test makes on a path inside one
scope directory (file creation, each physical write, fchmod, replace/rename,
unlink) is a numbered step of the current simulator op, observable by a hook
(a concurrent reader) and replaceable by a fault:

    crash        the process is killed before the call (nothing of it happens)
    crash_after  the call is performed, then the process is killed
    enospc, eio  the call is not performed and raises OSError(errno)
    raced        unlink only: another process removes the very file just
                 before the call (the call is then performed and fails the
                 way the kernel makes it fail); on any other call no fault
    short        write only: `cut` bytes of the chunk reach the file, then
                 OSError(ENOSPC) (what a short write(2) followed by the retry
                 of a buffered writer looks like); on a non-write call it is
                 the same as enospc, so that every op list stays executable

A write error is sticky for that file: the flush a buffered writer retries at
close() fails with the same errno and the buffered data is lost (a full disk
does not heal within one write_safe call).

After a crash (and after the patched `utils.sys_exit`) the seam is *dead*: the
process no longer exists, so everything Python still runs while the exception
unwinds (`finally:` clean-ups, `with` exits, buffered data) must not reach
the disk: every further mutating call raises SimCrash again and files are
closed without being flushed.  `revive()` is the start of the next process.

The directory is a real one (tmpfs).  What is faked:

* files opened for writing through the seam are `SeamFile`s: a user-space
  buffer of `bufsize` bytes in front of the descriptor, exactly the structure
  of `io.BufferedWriter` (data reaches the file when the buffer fills, at
  flush() and at close()).  `bufsize` is a run parameter, so a small manifest
  still takes several physical writes;
* `tempfile.NamedTemporaryFile` names come from a counter (the prefix chosen by
  the code under test is kept; O_CREAT|O_EXCL, mode 0600, a name that exists
  is skipped like the real one does);
* `st_ctime` (the only stat field the code under test uses for a decision)
  comes from a table fed by the VIRTUAL clock at every create / write /
  fchmod / replace through the seam, or by the harness for files it plants;
* listing order of glob/listdir is sorted, then permuted by the integer the
  current op carries (0 = sorted): a pure function of (order, names).

Calls on paths outside the scope directory (the watchdog lease of the agent)
are performed with deterministic temp names but are neither steps nor fault
points.
"""

import errno
import glob as _real_glob
import io as _real_io
import os as _real_os

from . import SimCrash, HarnessError
from . import rng as rngmod

KINDS = ('crash', 'crash_after', 'enospc', 'eio', 'short', 'raced')
_ERRNO = {'enospc': errno.ENOSPC, 'eio': errno.EIO, 'short': errno.ENOSPC}
FS_STEP_S = 0.00005      # virtual time one mutating call takes


class _Stat:
    """os.stat_result with st_ctime taken from the seam's table."""

    __slots__ = ('_real', 'st_ctime')

    def __init__(self, real, ctime):
        self._real = real
        self.st_ctime = ctime

    def __getattr__(self, name):
        return getattr(self._real, name)


class FaultFS:
    """Per-run seam state."""

    def __init__(self, clock, scope_dir, bufsize=8192):
        self.clock = clock
        self.scope = scope_dir.rstrip('/')
        self.bufsize = bufsize
        self.ctimes = {}          # abs path -> virtual ctime
        self.tmp_counter = 0
        self.open_files = {}      # fd -> SeamFile
        self.dead = False
        self.order = 0
        self.plan = None          # {'at': k, 'kind': ..., 'cut': n}
        self.fired = None         # description of the fault that fired
        self.steps = 0            # steps of the current op
        self.total_steps = 0
        self.trace = []           # [(call, basename, nbytes)] of current op
        self.replaced = []        # basenames that were the target of replace
        self.created = []         # basenames created/truncated in place
        self.unlinked = []        # basenames actually removed
        self.listings = 0         # glob/listdir calls on the scope
        self.on_step = None       # callable(call, basename) after each call
        self.on_list = None       # callable() when the scope is listed
        self.on_race = None       # callable(basename): someone else removed it

    # -- op framing
    def begin(self, order=0, plan=None):
        self.order = order or 0
        self.plan = dict(plan) if plan else None
        self.fired = None
        self.steps = 0
        self.trace = []
        self.replaced = []
        self.created = []
        self.unlinked = []
        self.listings = 0

    def end(self):
        self.plan = None
        self.order = 0

    def kill(self):
        """The process is gone: nothing it still holds reaches the disk."""
        self.dead = True
        for fd in sorted(self.open_files):
            seamfile = self.open_files[fd]
            seamfile.abandon()
        self.open_files = {}

    def revive(self):
        self.kill()
        self.dead = False

    # -- helpers
    def in_scope(self, path):
        return isinstance(path, str) and (
            path == self.scope or path.startswith(self.scope + '/'))

    def set_ctime(self, path, when=None):
        self.ctimes[path] = self.clock.peek() if when is None else when

    def permute(self, names):
        names = sorted(names)
        if self.order:
            order = self.order
            names.sort(key=lambda n: rngmod.mix(
                order, _real_os.path.basename(n)))
        return names

    def step(self, call, path, perform, post=None, partial=None, nbytes=0):
        """One mutating call.  perform() does it for real, post() records its
        effect in the tables, partial(cut) performs a short write."""
        if self.dead:
            raise SimCrash('process is dead (%s)' % call)
        if not self.in_scope(path):
            result = perform()
            if post is not None:
                post()
            return result
        base = _real_os.path.basename(path)
        self.steps += 1
        self.total_steps += 1
        self.trace.append((call, base, nbytes))
        plan = self.plan
        if plan is not None and plan['at'] == self.steps:
            self.plan = None
            kind = plan['kind']
            if kind == 'raced':
                if call == 'unlink' and _real_os.path.lexists(path):
                    self.fired = {'kind': kind, 'call': call, 'name': base,
                                  'at': self.steps}
                    _real_os.unlink(path)
                    self.ctimes.pop(path, None)
                    if self.on_race is not None:
                        self.on_race(base)
                result = perform()
                if post is not None:
                    post()
                self._after(call, base)
                return result
            self.fired = {'kind': kind, 'call': call, 'name': base,
                          'at': self.steps}
            if kind == 'crash':
                self.kill()
                raise SimCrash('killed before fs call %d (%s %s)' % (
                    self.steps, call, base))
            if kind == 'crash_after':
                try:
                    perform()
                except OSError:
                    pass          # the call failed (e.g. ENOENT), then killed
                else:
                    if post is not None:
                        post()
                self._after(call, base)
                self.kill()
                raise SimCrash('killed after fs call %d (%s %s)' % (
                    self.steps, call, base))
            if kind == 'short' and partial is not None:
                cut = max(0, min(int(plan.get('cut', 0)), nbytes - 1))
                self.fired['cut'] = cut
                if cut:
                    partial(cut)
                    if post is not None:
                        post()
                self._after(call, base)
            elif kind == 'short':
                self.fired['kind'] = 'enospc'
            if kind not in _ERRNO:
                raise HarnessError('unknown fault kind %r' % kind)
            raise OSError(_ERRNO[kind], _real_os.strerror(_ERRNO[kind]),
                          path)
        result = perform()
        if post is not None:
            post()
        self._after(call, base)
        return result

    def _after(self, call, base):
        self.clock.advance(FS_STEP_S)
        if self.on_step is not None:
            self.on_step(call, base)

    def listed(self, pattern_or_dir):
        if self.in_scope(pattern_or_dir):
            self.listings += 1
            if self.on_list is not None:
                self.on_list()

    # -- file creation shared by tempfile / io wrappers
    def open_new(self, path, text, excl, call):
        flags = _real_os.O_WRONLY | _real_os.O_CREAT | getattr(
            _real_os, 'O_CLOEXEC', 0)
        flags |= _real_os.O_EXCL if excl else _real_os.O_TRUNC
        box = []

        def perform():
            box.append(_real_os.open(path, flags, 0o600 if excl else 0o666))

        def post():
            self.set_ctime(path)
            if self.in_scope(path) and not excl:
                self.created.append(_real_os.path.basename(path))

        self.step(call, path, perform, post)
        seamfile = SeamFile(self, path, box[0], text)
        self.open_files[box[0]] = seamfile
        return seamfile


class SeamFile:
    """A file open for writing: user-space buffer + descriptor."""

    def __init__(self, seam, path, fd, text):
        self._seam = seam
        self.name = path
        self._fd = fd
        self._text = text
        self._buf = bytearray()
        self._failed = None       # errno of a write error (sticky, see below)
        self.closed = False
        if text:
            # PyYAML (like any writer) looks at this to choose str vs bytes
            self.encoding = 'UTF-8'
            self.mode = 'w'
        else:
            self.mode = 'wb'

    def fileno(self):
        if self.closed:
            raise ValueError('I/O operation on closed file')
        return self._fd

    def writable(self):
        return True

    def write(self, data):
        if self.closed:
            raise ValueError('I/O operation on closed file')
        if self._text:
            if not isinstance(data, str):
                raise TypeError('write() argument must be str, not %s' %
                                type(data).__name__)
            raw = data.encode('utf-8')
        else:
            if isinstance(data, str):
                raise TypeError("a bytes-like object is required, not 'str'")
            raw = bytes(data)
        self._buf.extend(raw)
        size = self._seam.bufsize
        while len(self._buf) >= size:
            self._physical(size)
        return len(data)

    def _physical(self, count):
        seam = self._seam
        if self._failed is not None and not seam.dead:
            # a full disk / failing device does not heal within the same
            # write_safe call: the retry a buffered writer makes at close()
            # fails the same way and the buffered data is lost.
            raise OSError(self._failed, _real_os.strerror(self._failed),
                          self.name)
        chunk = bytes(self._buf[:count])
        fd = self._fd
        path = self.name

        def perform():
            done = 0
            while done < len(chunk):
                done += _real_os.write(fd, chunk[done:])
            del self._buf[:count]

        def partial(cut):
            done = 0
            while done < cut:
                done += _real_os.write(fd, chunk[done:cut])
            del self._buf[:cut]

        def post():
            seam.set_ctime(path)

        try:
            seam.step('write', path, perform, post, partial,
                      nbytes=len(chunk))
        except OSError as err:
            self._failed = err.errno
            raise

    def flush(self):
        if self.closed:
            raise ValueError('I/O operation on closed file')
        if self._seam.dead:
            raise SimCrash('process is dead (flush)')
        while self._buf:
            self._physical(min(len(self._buf), self._seam.bufsize))

    def close(self):
        if self.closed:
            return
        try:
            if not self._seam.dead:
                self.flush()
        finally:
            self.abandon()
            self._seam.open_files.pop(self._fd, None)

    def abandon(self):
        """Close the descriptor; buffered data is lost."""
        if not self.closed:
            self.closed = True
            self._buf = bytearray()
            _real_os.close(self._fd)

    def __enter__(self):
        return self

    def __exit__(self, *exc):
        self.close()
        return False


class FaultOS:
    """Stands in for the `os` module inside one module under test."""

    def __init__(self, seam):
        self._seam = seam

    def __getattr__(self, name):
        if name == '_seam':
            raise AttributeError(name)
        return getattr(_real_os, name)

    # -- mutators
    def unlink(self, path, **kwargs):
        seam = self._seam

        def post():
            seam.ctimes.pop(path, None)
            if seam.in_scope(path):
                seam.unlinked.append(_real_os.path.basename(path))
        return seam.step('unlink', path,
                         lambda: _real_os.unlink(path, **kwargs), post)

    remove = unlink

    def _move(self, call, src, dst):
        seam = self._seam

        def post():
            seam.ctimes.pop(src, None)
            seam.set_ctime(dst)      # rename changes the inode's ctime
            if seam.in_scope(dst):
                seam.replaced.append(_real_os.path.basename(dst))
        fn = getattr(_real_os, call)
        return seam.step('replace', dst, lambda: fn(src, dst), post)

    def replace(self, src, dst, **_kwargs):
        return self._move('replace', src, dst)

    def rename(self, src, dst, **_kwargs):
        return self._move('rename', src, dst)

    def _fd_call(self, call, fd, perform):
        seam = self._seam
        seamfile = seam.open_files.get(fd)
        if seamfile is None:
            if seam.dead:
                raise SimCrash('process is dead (%s)' % call)
            return perform()
        path = seamfile.name
        return seam.step(call, path, perform, lambda: seam.set_ctime(path))

    def fchmod(self, fd, mode):
        return self._fd_call('fchmod', fd,
                             lambda: _real_os.fchmod(fd, mode))

    def fchown(self, fd, uid, gid):
        return self._fd_call('fchown', fd,
                             lambda: _real_os.fchown(fd, uid, gid))

    def chmod(self, path, mode, **kwargs):
        seam = self._seam
        return seam.step('chmod', path,
                         lambda: _real_os.chmod(path, mode, **kwargs),
                         lambda: seam.set_ctime(path))

    def fsync(self, fd):
        if self._seam.dead:
            raise SimCrash('process is dead (fsync)')
        return _real_os.fsync(fd)

    def utime(self, path, *args, **kwargs):
        if self._seam.dead:
            raise SimCrash('process is dead (utime)')
        return _real_os.utime(path, *args, **kwargs)

    def makedirs(self, path, *args, **kwargs):
        if self._seam.dead:
            raise SimCrash('process is dead (makedirs)')
        return _real_os.makedirs(path, *args, **kwargs)

    def mkdir(self, path, *args, **kwargs):
        if self._seam.dead:
            raise SimCrash('process is dead (mkdir)')
        return _real_os.mkdir(path, *args, **kwargs)

    # -- observers
    def stat(self, path, *args, **kwargs):
        real = _real_os.stat(path, *args, **kwargs)
        seam = self._seam
        if seam.in_scope(path):
            ctime = seam.ctimes.get(path)
            if ctime is None:
                raise HarnessError('stat of %r: no virtual ctime recorded' %
                                   _real_os.path.basename(path))
            return _Stat(real, ctime)
        return real

    def listdir(self, path='.'):
        self._seam.listed(path)
        return self._seam.permute(_real_os.listdir(path))


class FaultGlob:
    """Stands in for the `glob` module inside one module under test."""

    def __init__(self, seam):
        self._seam = seam

    def glob(self, pattern, **kwargs):
        self._seam.listed(pattern)
        return self._seam.permute(_real_glob.glob(pattern, **kwargs))

    def __getattr__(self, name):
        return getattr(_real_glob, name)


class FaultTempfile:
    """Stands in for `tempfile`: NamedTemporaryFile only."""

    def __init__(self, seam):
        self._seam = seam

    def NamedTemporaryFile(self, mode='w+b', buffering=-1, encoding=None,
                           newline=None, suffix=None, prefix=None, dir=None,
                           delete=True, **_kwargs):
        # pylint: disable=invalid-name,redefined-builtin,unused-argument
        if delete or dir is None:
            raise HarnessError('NamedTemporaryFile: only delete=False with an '
                               'explicit dir is modelled')
        seam = self._seam
        prefix = 'tmp' if prefix is None else prefix
        for _ in range(10000):
            seam.tmp_counter += 1
            path = _real_os.path.join(dir, '%ssim%06d%s' % (
                prefix, seam.tmp_counter, suffix or ''))
            if not _real_os.path.lexists(path):
                break
        return seam.open_new(path, 'b' not in mode, True, 'create')

    def __getattr__(self, name):
        raise HarnessError('unexpected tempfile.%s in module under test' %
                           name)


class FaultIO:
    """Stands in for `io`: open() for writing inside the scope is a SeamFile
    (covers code that writes a cache file in place)."""

    def __init__(self, seam):
        self._seam = seam

    def open(self, file, mode='r', *args, **kwargs):
        seam = self._seam
        writing = any(c in mode for c in 'wax+')
        if writing and seam.in_scope(file):
            if 'a' in mode or '+' in mode:
                raise HarnessError('io.open mode %r not modelled' % mode)
            return seam.open_new(file, 'b' not in mode, 'x' in mode,
                                 'create' if 'x' in mode else 'truncate')
        if writing and seam.dead:
            raise SimCrash('process is dead (open)')
        return _real_io.open(file, mode, *args, **kwargs)

    def __getattr__(self, name):
        return getattr(_real_io, name)


class Patches:
    """setattr with undo; attributes that did not exist are deleted again."""

    _MISSING = object()

    def __init__(self):
        self._undo = []

    def set(self, obj, name, value):
        self._undo.append((obj, name, obj.__dict__.get(name, self._MISSING)
                           if hasattr(obj, '__dict__')
                           else getattr(obj, name, self._MISSING)))
        setattr(obj, name, value)

    def undo(self):
        while self._undo:
            obj, name, old = self._undo.pop()
            if old is self._MISSING:
                try:
                    delattr(obj, name)
                except AttributeError:
                    pass
            else:
                setattr(obj, name, old)
