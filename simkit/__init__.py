"""simkit: a small deterministic-simulation kit for Treadmill (see DESIGN.md section 2).

Importing this package pins the process environment the simulations rely on
(UTC, path to the repository working tree) before any treadmill module is
imported.
"""

import os
import sys
import time

VERIF_DIR = os.path.dirname(os.path.dirname(os.path.abspath(__file__)))
REPO = os.environ.get('VERIF_REPO', '/repo')
REPO_LIB = os.path.join(REPO, 'lib', 'python')

os.environ['TZ'] = 'UTC'
time.tzset()
os.environ.setdefault('TREADMILL_ID', 'verif')

if REPO_LIB not in sys.path:
    sys.path.insert(0, REPO_LIB)
if VERIF_DIR not in sys.path:
    sys.path.insert(0, VERIF_DIR)

# real clock functions, captured before any simulated clock is installed.
REAL_TIME = time.time
REAL_MONOTONIC = time.monotonic
REAL_SLEEP = time.sleep
REAL_PERF = time.perf_counter


def with_os_resource(make):
    """Call `make()` (creating a real inotify instance or the like).  Such
    kernel objects are a per-user resource shared with every other process
    on the machine (128 inotify instances by default): when none is left,
    wait in real time, outside the simulated world, and try again.  Nothing
    simulated is consulted, so replay is unaffected."""
    import errno
    for attempt in range(3000):
        try:
            return make()
        except OSError as err:
            if err.errno not in (errno.EMFILE, errno.ENFILE, errno.ENOSPC,
                                 errno.ENOMEM) or attempt == 2999:
                raise
            REAL_SLEEP(0.1)
    raise AssertionError('unreachable')


class SimCrash(BaseException):
    """The simulated process is killed at this instant."""


class SimProcessExit(BaseException):
    """The code under test called utils.sys_exit (os._exit in production)."""

    def __init__(self, code=None):
        BaseException.__init__(self, code)
        self.code = code


class SimDone(BaseException):
    """Raised by the simulator to unwind a repo-owned `while True` loop."""


class HarnessError(Exception):
    """A defect of the simulator itself (never reported as a violation)."""


def quiet_logging():
    """Raise log thresholds: throughput, and logging must not touch the clock."""
    import logging
    logging.disable(logging.CRITICAL)
