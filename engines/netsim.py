"""netsim: node-side network bookkeeping under seeded op histories (C14, C16).

System under simulation (all real, unmodified): treadmill.vipfile.VipMgr,
treadmill.rulefile.RuleMgr, treadmill.endpoints.EndpointsMgr +
endpoints.garbage_collect, treadmill.services.network_service
.NetworkResourceService behind the real LinuxResourceService / ResourceService
request plumbing (_on_created, _on_deleted, _check_requests, clt_* and the real
ResourceServiceClient) fed by a real inotify DirWatcher,
treadmill.runtime.allocate_network_ports / save_app / load_app_safe,
treadmill.runtime.linux._run._unshare_network and
treadmill.runtime.linux._finish._cleanup_network, on real directories of a
private tmpfs tree, with a real appenv.LinuxAppEnvironment.

Simulated: clock, directory listing order, process death (SimCrash before the
k-th mutating call of an op), netdev / ipset / newnet (in-process fakes that
can fail), the host port table, DNS, transient failures of the k-th
open()/read of the files a start or a finish works with (netshims.SeamIO).
See DESIGN.md 2.5, 2.6, C14, C16.
"""

import errno
import fnmatch
import ipaddress
import os
import shutil

import yaml

import simkit
from simkit import clock as clockmod
from simkit import engine as enginemod
from simkit import fsseam
from simkit import log as logmod
from simkit import netshims
from simkit import rng as rngmod

import treadmill.fs
from treadmill import dirwatch
from treadmill import endpoints
from treadmill import exc
from treadmill import firewall
from treadmill import iptables as real_iptables
from treadmill import netdev as real_netdev
from treadmill import rulefile
from treadmill import runtime
from treadmill import subproc
from treadmill import vipfile
from treadmill.appcfg import manifest as app_manifest
from treadmill.appenv import _linux as appenv_linux
from treadmill.runtime.linux import _finish
from treadmill.runtime.linux import _run
from treadmill.services import _base_service
from treadmill.services import _linux_base_service
from treadmill.services import network_service

from oracles import netcheck

EXT_IP = '10.10.1.5'
EXT_DEV = 'eth0'
NET_CIDR = ipaddress.IPv4Network(network_service.NetworkResourceService
                                 ._TM_CIDR)
ENVS = ('dev', 'qa', 'uat', 'prod')
DNS = {'hosta': '172.16.0.1', 'hostb': '172.16.0.2', 'hostc': '172.16.0.3',
       'hosta-alias': '172.16.0.1'}
# passthrough entries: names, and address literals in canonical and in
# non-canonical form (octal / short / hex: what inet_aton accepts and
# gethostbyname canonicalises - the schema has no format check)
PASSTHROUGH_HOSTS = sorted(DNS) + ['172.16.0.9', '172.016.000.010', '10.1',
                                   '0x0a.0.0.7']
CHAINS = (real_iptables.PREROUTING_DNAT, real_iptables.POSTROUTING_SNAT,
          real_iptables.PREROUTING_PASSTHROUGH)
HOST_SETS = (real_iptables.SET_INFRA_SVC, real_iptables.SET_VRING_CONTAINERS,
             real_iptables.SET_PROD_CONTAINERS,
             real_iptables.SET_NONPROD_CONTAINERS)
HS_HOST = 'root.node1'
LAYOUT_KEYS = ('apps_link', 'rules_link', 'endpoints_link', 'vipsd_link',
               'svc_link', 'svc_vips_link', 'svc_rsrc_link', 'relative')


def _mk_error(what):
    return subproc.CalledProcessError(1, what)


def rule_from_spec(spec):
    kind = spec['t']
    if kind == 'pt':
        return firewall.PassThroughRule(src_ip=spec['src_ip'],
                                        dst_ip=spec['dst_ip'])
    cls = firewall.DNATRule if kind == 'dnat' else firewall.SNATRule
    return cls(proto=spec['proto'], src_ip=spec.get('src_ip'),
               src_port=spec.get('src_port'), dst_ip=spec.get('dst_ip'),
               dst_port=spec.get('dst_port'), new_ip=spec['new_ip'],
               new_port=spec['new_port'])


def rule_key(chain, rule):
    """Identity of a rule, computed without the code's file-name encoding."""
    if isinstance(rule, firewall.PassThroughRule):
        return (chain, 'pt', rule.src_ip, rule.dst_ip)
    kind = 'dnat' if isinstance(rule, firewall.DNATRule) else 'snat'
    return (chain, kind, rule.proto,
            '*' if rule.src_ip == firewall.ANY_IP else rule.src_ip,
            int(rule.src_port),
            '*' if rule.dst_ip == firewall.ANY_IP else rule.dst_ip,
            int(rule.dst_port), rule.new_ip, int(rule.new_port))


class _PastNetwork(BaseException):
    """run() reached exec_pid1: the start succeeded (stubbed from here)."""


def _exec_pid1(*_args, **_kwargs):
    raise _PastNetwork()


def _no_root_dir(container_dir, _localdisk):
    """Stands in for _run._create_root_dir (mkfs / unshare / mount)."""
    return os.path.join(container_dir, 'root')


class _OtherClient:
    """Client of a resource service that is not under test."""

    def __init__(self, service):
        self._service = service

    def put(self, _rsrc_id, _rsrc_data):
        pass

    def wait(self, rsrc_id, timeout=None):
        fault = self._service.fault
        if fault is not None:
            self._service.fired += 1
            if fault == 'error':
                raise _base_service.ResourceServiceRequestError(
                    'injected failure', {'id': rsrc_id})
            raise _base_service.ResourceServiceTimeoutError(
                'Resource %r not available in time' % rsrc_id)
        return dict(self._service.reply)

    def get(self, _rsrc_id):
        return dict(self._service.reply)

    def delete(self, _rsrc_id):
        pass


class _OtherService:
    """cgroup / localdisk / presence service: replies at once; the op can
    make it answer with an _error reply or not at all (`fault`)."""

    def __init__(self, reply):
        self.reply = reply
        self.fault = None    # None | 'error' | 'timeout'
        self.fired = 0

    def make_client(self, _client_dir):
        return _OtherClient(self)


class _Image:
    def unpack(self, *_args, **_kwargs):
        pass


class _NoImage:
    """treadmill.runtime.linux.image of _run: nothing is unpacked."""

    @staticmethod
    def get_image(_tm_env, _manifest):
        return _Image()


class _RuntimeConfig:
    host_mount_whitelist = []


class _FsLinux(netshims.Strict):
    _what = 'fs_linux'

    def cleanup_mounts(self, _whitelist):
        pass


class _AppHook(netshims.Strict):
    _what = 'apphook'

    def configure(self, _tm_env, _app, _container_dir):
        pass


class _Subproc(netshims.Strict):
    """subproc of _run: exec_pid1 is where a successful start ends."""
    _what = 'subproc'
    _real = subproc
    exec_pid1 = staticmethod(_exec_pid1)


class _Lease:
    """Watchdog lease handed to RuleMgr.garbage_collect."""

    def __init__(self, seam):
        self._seam = seam

    def heartbeat(self):
        self._seam.checkpoint('heartbeat')


class World:
    """Real managers + service on a scratch tree, fakes, reference maps."""

    def __init__(self, config, clock, prop, log, root, seam):
        self.config = config
        self.clock = clock
        self.prop = prop
        self.log = log
        self.root = root
        self.seam = seam
        self.violation = None
        self.step = 0
        self.fps = []
        self.nontrivial = 0
        if prop == 'C14':
            self.probes = dict.fromkeys((
                'alloc_ok', 'alloc_refused', 'alloc_exhausted',
                'nonowner_release_attempts', 'owner_releases',
                'second_owner_create_refused', 'same_owner_recreate',
                'spec_recreate_refused', 'gc_with_live_and_dead',
                'gc_reclaimed', 'gc_passes_preempted', 'gc_open_entries',
                'gc_entry_taken_over_by_newcomer', 'gc_stat_unlink_windows',
                'gc_pass_aborted_by_lookup_error',
                'gc_entry_retaken_in_window', 'unlink_all_removed',
                'unlink_all_skipped_foreign', 'net_requests',
                'net_replies_ok', 'net_replies_error',
                'net_same_ip_after_restart',
                'net_held_ip_checked_after_restart', 'svc_restarts',
                'svc_restart_with_live_requests', 'svc_start_failed',
                'stale_requests_reclaimed', 'ip_reused',
                'id_requested_again_before_delete_processed',
                'order_permuted_listings', 'layout_with_symlinked_dirs',
                'pool_initialized_while_others_hold_ips'), 0)
            self.faults = dict.fromkeys((
                'svc_killed_mid_request', 'svc_crash', 'command_failed',
                'owner_vanished', 'lookup_failed', 'client_op_preempted',
                'svc_start_preempted'), 0)
        else:
            self.probes = dict.fromkeys((
                'svc_restarts', 'stale_requests_reclaimed',
                'starts_ok', 'starts_failed',
                'finishes_complete', 'finishes_repeated',
                'finish_failed_then_retried', 'finish_raised_on_io_error',
                'finish_with_others_registered', 'finish_removed_entries',
                'port_collisions', 'port_reused_after_death', 'ip_reused',
                'drain_checks', 'same_instance_overlap',
                'order_permuted_listings', 'layout_with_symlinked_dirs'), 0)
            self.faults = dict.fromkeys((
                'start_killed', 'finish_killed', 'finish_killed_then_repeated',
                'command_failed', 'eaddrinuse', 'resolver_failed',
                'presence_failed', 'io_error', 'io_error_in_start',
                'io_error_in_finish', 'svc_restart', 'client_op_preempted',
                'svc_start_preempted'), 0)
        # -- fakes
        self.netdev = netshims.FakeNetdev(seam, subproc, EXT_DEV,
                                          real=real_netdev)
        self.ipt = netshims.FakeIptables(seam, subproc, real_iptables)
        self.ipt.host_init(HOST_SETS)
        self.newnet = netshims.FakeNewnet(seam)
        self.sock = netshims.FakeSocketMod(DNS, seam)
        self.rnd = netshims.FakeRandom()
        self.rnd.hot = config.get('hot_ports', 6)
        self.pm = netshims.FakePluginManager()
        self.pid = netshims.FakeOsGetpid()
        self.io = netshims.SeamIO(seam)
        # -- real environment
        tmroot = os.path.join(root, 'tm')
        vol = os.path.join(root, 'vol')
        lay = config.get('layout') or {}
        self.layout = lay
        if any(lay.values()):
            self.probes['layout_with_symlinked_dirs'] += 1
        os.makedirs(tmroot)

        def place(path, key, target):
            """A plain directory, or (layout) a symlink to a directory with
            another parent at another depth."""
            if lay.get(key):
                target = os.path.join(vol, target)
                os.makedirs(target)
                os.symlink(target, path)
            else:
                os.makedirs(path)

        place(os.path.join(tmroot, 'apps'), 'apps_link', 'a/deep/er/apps')
        place(os.path.join(tmroot, 'rules'), 'rules_link', 'fw/rules')
        place(os.path.join(tmroot, 'endpoints'), 'endpoints_link',
              'ep/x/endpoints')
        place(os.path.join(tmroot, 'vipsd'), 'vipsd_link', 'run/v/w/vipsd')
        place(os.path.join(tmroot, 'network_svc'), 'svc_link',
              'svc/network_svc')
        svc_real = os.path.realpath(os.path.join(tmroot, 'network_svc'))
        place(os.path.join(svc_real, 'vips'), 'svc_vips_link',
              'volatile/run/vips')
        place(os.path.join(svc_real, 'resources'), 'svc_rsrc_link',
              'q/r/s/t/resources')
        self.tm_env = appenv_linux.LinuxAppEnvironment(tmroot)
        self.apps_dir = self.tm_env.apps_dir
        self.proc_dir = os.path.join(tmroot, 'proc')
        os.makedirs(self.proc_dir)
        self.tm_env.svc_cgroup = _OtherService({})
        self.tm_env.svc_localdisk = _OtherService({'block_dev': '/dev/null'})
        self.tm_env.svc_presence = _OtherService({})
        self.svc = self.tm_env.svc_network
        self.svc_dir = self.tm_env.svc_network_dir
        self.rsrc_dir = os.path.join(self.svc_dir, 'resources')
        self.vips_dir = os.path.join(self.svc_dir, 'vips')
        self.vipd_dir = os.path.join(tmroot, 'vipsd')
        vip_args = (self.vipd_dir, self.apps_dir)
        if lay.get('relative'):
            # VipMgr is given paths relative to the working directory
            vip_args = tuple(os.path.relpath(p) for p in vip_args)
        # one pool per CIDR, all on ONE vips directory with one owners
        # directory (how warpgate.policy_server._init_networks builds them)
        cidrs = [config['cidr']] + list(config.get('extra_pools') or ())
        self.cidrs = [ipaddress.IPv4Network(c) for c in cidrs]
        self.vippools = [vipfile.VipMgr(c, *vip_args) for c in cidrs]
        self.vipmgr = self.vippools[0]
        self.cidr = self.cidrs[0]
        if len(cidrs) > 1 and prop == 'C14':
            self.probes['runs_with_vip_pools_sharing_a_directory'] = 1
        self.impl = None
        self.watcher = None
        # -- reference
        self.owners = {}      # name -> True while apps/<name> exists
        self.hs = {}          # pid -> True while proc/<pid> exists
        self.vip_ref = {}
        self.rule_ref = {}
        self.spec_ref = {}
        self.req = {}         # rsrc_id -> {'ip': last acknowledged ip}
        self.cont = {}        # C16: name -> dict
        self.initial = None
        self.ever_ips = {}
        self.dead_ports = set()
        self.faulted = False   # a kill or an injected failure has happened
        self.gc_pass = None    # bookkeeping of a GC pass in progress
        self.in_nested = False
        self.leaky = set()     # requests that held two ips (after a fault)
        self.unprocessed_del = set()   # deletions the service has not seen
        self.raced = set()     # ids requested again before that (provenance)
        # within-operation pre-emption (op field "preempt"): complete
        # operations of other actors before the k-th step of this op
        self.preempt = None
        self.preempt_outer = None
        self.preempt_ran = 0
        self.preempt_touched = set()
        self.del_in_start = set()   # provenance, like `raced`
        self.in_preempt = False
        self.init_steps = 0    # steps the last service start made before
        #                        its replay of the existing requests
        self._step_log = seam.on_step
        seam.on_step = self._on_step

    # -- plumbing
    @staticmethod
    def _bump(table, key):
        table[key] = table.get(key, 0) + 1

    def fail(self, sig, detail):
        if self.violation is None:
            self.violation = {'sig': sig, 'detail': detail, 'step': self.step}

    def is_live(self, owner):
        # the harness's own knowledge of who exists - never the entry's link
        return owner in self.owners

    def spec_owner_live(self, owner):
        return owner in self.owners or (
            owner is not None and owner.isdigit() and int(owner) in self.hs)

    def close(self):
        self._svc_down()

    IO_FAULT_OPS = ('c_start', 'c_finish')

    def apply(self, op):
        self.clock.advance(1.0)
        fault = op.get('stat_fault')
        self.seam.begin(order=op.get('ord', 0), crash_at=op.get('crash_at'),
                        fail_at=op.get('fail_at'),
                        stat_fault=(fault['name'], fault['errno'])
                        if fault else None)
        if op.get('ord'):
            self.probes['order_permuted_listings'] += 1
        self.sock.failing = set(op.get('resolve_fault') or ())
        self.sock.resolve_failures = 0
        # transient failure of the k-th open()/read of the files a start or
        # a finish works with (any file; the op says which call and how)
        iof = op.get('io_fault') if op['op'] in self.IO_FAULT_OPS else None
        self.io.begin((int(iof['at']), int(iof['errno'])) if iof else None)
        self.preempt = None
        self.preempt_ran = 0
        self.preempt_touched = set()
        if op['op'] in self.PREEMPTIBLE and op.get('preempt'):
            self.preempt = {}
            for item in op['preempt']:
                self.preempt.setdefault(int(item['at']), []).extend(
                    item['ops'])
            self.preempt_outer = op
        try:
            getattr(self, 'op_' + op['op'])(op)
        finally:
            self.preempt = None
            if self.preempt_ran:
                self._bump(self.faults, 'svc_start_preempted'
                           if op['op'] in ('svc_start', 'svc_restart')
                           else 'client_op_preempted')
            self.sock.failing = set()
            if self.sock.resolve_failures:
                self._bump(self.faults, 'resolver_failed')
            if self.io.fired:
                self._bump(self.faults, 'io_error')
                self._bump(self.faults, 'io_error_in_' + op['op'][2:])
                self.log.ev('io_error', *self.io.last)
            if self.seam.stat_faults_fired:
                self._bump(self.faults, 'lookup_failed')
            elif self.seam.failed and not self.sock.resolve_failures and \
                    not self.io.fired:
                self.faults['command_failed'] += 1
            self.io.end()
            if self.seam.failed or self.seam.crashed:
                self.faulted = True
            self.seam.end()
        self.fps.append(logmod.fingerprint(self.abstract()))

    def abstract(self):
        return [sorted(self.owners), sorted(self.vip_ref.items()),
                sorted((repr(k), v) for k, v in self.rule_ref.items()),
                sorted((repr(k), v) for k, v in self.spec_ref.items()),
                sorted((k, v['ip']) for k, v in self.req.items()),
                sorted((k, v['state'], v['finished']) for k, v in
                       self.cont.items()),
                self.impl is not None,
                sorted((k, sorted(v)) for k, v in self.ipt.sets.items())]

    # ------------------------------------------------------------------
    # within-operation pre-emption.  The steps of an op (mutating file-system
    # calls and external commands, the points at which a kill can land) are
    # also the points at which another process can run: "preempt": [{"at": k,
    # "ops": [...]}] executes complete operations of OTHER actors before the
    # k-th step of the op.  Outer op -> what may run inside it:
    PREEMPTIBLE = {
        # a client's put() / delete() between two of its file-system steps:
        # the service works, other clients register / unregister
        'net_put': ('svc_step', 'net_put', 'net_del'),
        'net_del': ('svc_step', 'net_put', 'net_del'),
        'c_finish': ('svc_step',),
        # a service start (initialize, replay of the existing requests,
        # synchronize) between two of its steps: clients act
        'svc_start': ('net_put', 'net_del', 'c_finish'),
        'svc_restart': ('net_put', 'net_del', 'c_finish'),
    }

    @staticmethod
    def _actor_of(op):
        if op['op'] in ('svc_step', 'svc_start', 'svc_restart'):
            return 'svc'
        return op.get('owner') or op.get('name')

    def _on_step(self, kind, what):
        # (called by Seam.tick before the step is made; the I/O points of
        # netshims.SeamIO report here too and are not steps)
        if self.preempt and not kind.startswith('io:') and \
                not self.in_preempt and not self.in_nested and \
                self.violation is None:
            nested = self.preempt.pop(self.seam.steps, None)
            if nested:
                self._run_preempt(self.seam.steps, nested)
        if self._step_log is not None:
            self._step_log(kind, what)

    def _run_preempt(self, at, nested):
        outer = self.preempt_outer
        allowed = self.PREEMPTIBLE[outer['op']]
        seam = self.seam
        saved = (seam.crash_at, seam.fail_at, seam.steps, seam.commands,
                 seam.stat_fault, seam.failed, seam.crashed, self.ipt.actor,
                 self.sock.actor, self.sock.failing)
        # the others are other processes: the kill / failure points of the
        # pre-empted one do not apply to them
        seam.crash_at = seam.fail_at = seam.stat_fault = None
        self.sock.failing = set()
        io_saved = self.io.suspend()
        self.in_preempt = True
        try:
            for nop in nested:
                if self.violation is not None:
                    break
                if not isinstance(nop, dict) or nop.get('op') not in allowed \
                        or self._actor_of(nop) == self._actor_of(outer):
                    continue
                if nop['op'] == 'c_finish' and \
                        self.prop != 'C16' or \
                        nop['op'].startswith('net_') and self.prop != 'C14':
                    continue
                seam.steps = seam.commands = 0
                seam.failed = seam.crashed = False
                self.preempt_ran += 1
                self.preempt_touched.add(self._actor_of(nop))
                if nop['op'] == 'net_del' and outer['op'] in (
                        'svc_start', 'svc_restart'):
                    self.del_in_start.add(nop['owner'])
                self.log.ev('preempt', at, nop)
                getattr(self, 'op_' + nop['op'])(nop)
        finally:
            self.in_preempt = False
            (seam.crash_at, seam.fail_at, seam.steps, seam.commands,
             seam.stat_fault, seam.failed, seam.crashed, self.ipt.actor,
             self.sock.actor, self.sock.failing) = saved
            self.io.resume(io_saved)

    # ------------------------------------------------------------------
    # owners
    def op_owner_add(self, op):
        name = op['name']
        if name in self.owners:
            return
        os.makedirs(os.path.join(self.apps_dir, name, 'data'))
        self.owners[name] = True
        if self.gc_pass is not None:
            self.gc_pass['added'][name] = self.gc_pass['tick']
            self.gc_pass['touched'].add(name)

    def op_owner_del(self, op):
        name = op['name']
        if name not in self.owners:
            return
        shutil.rmtree(os.path.join(self.apps_dir, name))
        del self.owners[name]
        if self.gc_pass is not None:
            self.gc_pass['added'].pop(name, None)
            self.gc_pass['touched'].add(name)
        self.req.pop(name, None)
        self.faults['owner_vanished'] = \
            self.faults.get('owner_vanished', 0) + 1

    def op_advance(self, op):
        self.clock.advance(op['dt'])

    # ------------------------------------------------------------------
    # direct VipMgr pools
    def _pool(self, op):
        idx = op.get('pool', 0) % len(self.vippools)
        return self.vippools[idx], self.cidrs[idx]

    def _in_pools(self, ip):
        try:
            addr = ipaddress.IPv4Address(ip)
        except ValueError:
            return False
        return any(addr in cidr for cidr in self.cidrs)

    def _vip_check(self, op, expected, cls, by=None, pre=None):
        actual = netcheck.read_links(self.vipd_dir)
        for ip in sorted(actual):
            if not self._in_pools(ip):
                self.fail('C14:ip-outside-network',
                          'vip %r is in none of %s' % (
                              ip, [str(c) for c in self.cidrs]))
                return
        bad = netcheck.compare('vip', actual, expected, {
            'op': op['op'], 'cls': cls, 'by': by, 'live': self.is_live,
            'pre': pre if pre is not None else self.vip_ref})
        if bad:
            self.fail(*bad)
            return
        listed = dict(self._pool(op)[0].list())
        if listed != actual:
            self.fail('C14:list-mismatch:vip',
                      'VipMgr.list() %r != directory %r' % (listed, actual))
        self.vip_ref = expected

    def op_vip_alloc(self, op):
        owner = op['owner']
        pre = dict(self.vip_ref)
        exp = dict(pre)
        picked = op.get('ip')
        pool, cidr = self._pool(op)
        try:
            ip = pool.alloc(owner, picked_ip=picked)
        except ValueError as err:
            self.log.ev('vip_alloc', owner, 'ValueError', str(err))
            self.probes['alloc_refused'] += 1
            ip = None
        except Exception as err:  # pylint: disable=broad-except
            # VipMgr signals "no free IP" / "IP taken" with a bare Exception
            self.log.ev('vip_alloc', owner, type(err).__name__)
            free = [h for h in cidr.hosts() if str(h) not in pre]
            if picked is None and not free:
                self.probes['alloc_exhausted'] += 1
            else:
                self.probes['alloc_refused'] += 1
            ip = None
        if ip is not None:
            self.log.ev('vip_alloc', owner, ip)
            self.probes['alloc_ok'] += 1
            try:
                inside = ipaddress.IPv4Address(ip) in cidr
            except ValueError:
                inside = False
            if not inside:
                self.fail('C14:ip-outside-network',
                          'alloc returned %r, not in %s' % (ip, cidr))
                return
            if ip in pre and pre[ip] != owner:
                self.fail('C14:vip-two-owners',
                          'alloc gave %s to %s while %s holds it' % (
                              ip, owner, pre[ip]))
                return
            if ip in self.ever_ips and ip not in pre:
                self.probes['ip_reused'] += 1
            self.ever_ips[ip] = True
            exp[ip] = owner
        self._vip_check(op, exp, 'create', pre=pre)

    def op_vip_free(self, op):
        owner, ip = op['owner'], op['ip']
        pre = dict(self.vip_ref)
        exp = dict(pre)
        holder = pre.get(ip)
        if holder == owner:
            del exp[ip]
            cls = 'release-owner'
            self.probes['owner_releases'] += 1
        else:
            cls = 'release-nonowner'
            if holder is not None:
                self.probes['nonowner_release_attempts'] += 1
                self.nontrivial += 1
        try:
            self._pool(op)[0].free(owner, ip)
        except OSError as err:
            self.log.ev('vip_free', owner, ip, 'OSError', err.errno)
        self._vip_check(op, exp, cls, by=owner, pre=pre)

    # ------------------------------------------------------------------
    # garbage collection passes, pre-emptible between two entries
    NESTED = {'vip': ('owner_add', 'owner_del', 'vip_alloc', 'vip_free'),
              'rule': ('owner_add', 'owner_del', 'rule_create',
                       'rule_unlink'),
              'endpoint': ('owner_add', 'owner_del', 'spec_create',
                           'spec_unlink', 'spec_unlink_all')}

    def _gc_tables(self, kind):
        if kind == 'vip':
            return ('vip_ref', lambda: netcheck.read_links(self.vipd_dir),
                    self.is_live)
        if kind == 'rule':
            return 'rule_ref', self._rules_actual, self.is_live
        return 'spec_ref', self._specs_actual, self.spec_owner_live

    def _gc_pass(self, kind, op, call):
        """One real GC pass.  `op['during']` = [{'at': k, 'ops': [...]}]:
        complete operations of other owners executed at the k-th pre-emption
        point of the pass.

        Oracle (C14, "reclaims exactly the entries whose owner no longer
        exists"), stated against liveness at the moment an entry is decided:
        an entry whose holder has been alive ever since it holds the entry
        (or since the pass began) must survive; an entry that was there when
        the pass began, kept its holder, and whose holder was dead then and
        never appeared during the pass must be gone when the pass ends;
        everything else (the holder's liveness changed while the pass ran,
        the entry appeared during the pass for a dead holder) is open.
        """
        attr, _actual, live = self._gc_tables(kind)
        pre = dict(getattr(self, attr))
        self._gc_probe(pre, live)
        during = {}
        windows = {}
        for item in op.get('during') or ():
            if 'window' in item:
                windows.setdefault(item['window'], []).extend(item['ops'])
            else:
                during.setdefault(item['at'], []).extend(item['ops'])
        self.gc_pass = {
            'kind': kind, 'tick': 0, 'born': {}, 'added': {}, 'pre': pre,
            'touched': set(), 'window': set(), 'windows': {},
            'dead_at_start': {o for o in pre.values() if not live(o)},
            'during': during, 'op': op['op'], 'ran': 0}
        self.gc_pass['windows'] = windows
        self.seam.on_checkpoint = self._gc_checkpoint
        aborted = False
        try:
            call()
        except OSError as err:
            # a pass that cannot look an owner up fails as a whole: a
            # legitimate failed operation (what it decided before stands)
            aborted = True
            self.log.ev(op['op'], 'aborted', err.errno)
            if not self.seam.stat_faults_fired:
                self.fail('C14:gc-raised:%s' % kind,
                          'garbage collection raised %r without an injected '
                          'fault' % (err,))
            else:
                self.probes['gc_pass_aborted_by_lookup_error'] += 1
        finally:
            self.seam.on_checkpoint = None
            if self.violation is None:
                self._gc_sync(final=not aborted)
            if self.gc_pass['ran']:
                self.probes['gc_passes_preempted'] += 1
                self.nontrivial += 1
            self.gc_pass = None

    def _gc_must_survive(self, key, holder):
        gcp = self.gc_pass
        _attr, _actual, live = self._gc_tables(gcp['kind'])
        if not live(holder):
            return False
        # alive now; dead at some point during the pass only if it was added
        # during the pass (a removal forgets the addition)
        last_dead = gcp['added'].get(holder, -1)
        if holder in gcp['dead_at_start'] and holder not in gcp['added']:
            # host-service owners (proc/<pid>) are not added by nested ops
            return False
        return last_dead < gcp['born'].get(key, 0)

    def _gc_must_go(self, key, holder):
        gcp = self.gc_pass
        return (key not in gcp['born'] and gcp['pre'].get(key) == holder and
                holder in gcp['dead_at_start'] and
                holder not in gcp['touched'])

    def _gc_sync(self, final):
        """Bring the reference up to what the pass has decided so far."""
        gcp = self.gc_pass
        kind = gcp['kind']
        attr, actual_fn, _live = self._gc_tables(kind)
        ref = getattr(self, attr)
        actual = actual_fn()
        for key in sorted(set(ref) | set(actual), key=repr):
            if key not in actual:
                holder = ref[key]
                if self._gc_must_survive(key, holder):
                    self.fail('C14:gc-removed-live:%s%s' % (
                        kind, ':in-stat-unlink-window'
                        if key in gcp['window'] else ''),
                              'garbage collection removed %s %r whose owner '
                              '%r exists (and has existed ever since it '
                              'holds the entry)%s' % (
                                  kind, key, holder,
                                  ' - pass pre-empted %d time(s)' % gcp['ran']
                                  if gcp['ran'] else ''))
                    return
                if not self._gc_must_go(key, holder):
                    self.probes['gc_open_entries'] += 1
                del ref[key]
            elif key not in ref:
                self.fail('C14:unexpected-entry:%s:%s' % (kind, gcp['op']),
                          '%s %r (owner %r) appeared during %s' % (
                              kind, key, actual[key], gcp['op']))
                return
            elif actual[key] != ref[key]:
                self.fail('C14:%s-two-owners' % kind,
                          '%s %r is held by %r but the directory says %r '
                          'after %s' % (kind, key, ref[key], actual[key],
                                        gcp['op']))
                return
            elif final and self._gc_must_go(key, ref[key]):
                self.fail('C14:gc-kept-dead:%s' % kind,
                          'garbage collection kept %s %r whose owner %r does '
                          'not exist' % (kind, key, ref[key]))
                return
            elif final and not self._gc_must_survive(key, ref[key]):
                self.probes['gc_open_entries'] += 1

    def _entry_key(self, kind, name):
        if kind == 'vip':
            return name
        if kind == 'rule':
            parsed = rulefile.RuleMgr.get_rule(name)
            return rule_key(parsed[0], parsed[1]) if parsed else None
        return tuple(name.split('~'))

    def _gc_checkpoint(self, count, ckind, what=None):
        gcp = self.gc_pass
        if gcp is None or self.in_nested or self.violation is not None:
            return
        nested = []
        window_key = None
        if ckind != 'unlink':
            # "at": k counts the between-entries points (heartbeat / stat)
            gcp['points'] = gcp.get('points', 0) + 1
            nested = list(gcp['during'].get(gcp['points']) or ())
        else:
            # between the stat() that found this entry ownerless and its
            # unlink(): "window" items name the entry
            self.probes['gc_stat_unlink_windows'] += 1
            window_key = self._entry_key(gcp['kind'], what)
            nested += gcp['windows'].pop(what, ())
        if not nested:
            return
        self._gc_sync(final=False)
        attr = self._gc_tables(gcp['kind'])[0]
        self.in_nested = True
        self.seam.on_checkpoint = None   # nested operations are atomic
        try:
            for nop in nested:
                if self.violation is not None:
                    break
                if nop.get('op') not in self.NESTED[gcp['kind']]:
                    continue
                gcp['tick'] += 1
                gcp['ran'] += 1
                before = dict(getattr(self, attr))
                self.log.ev('during', count, nop)
                getattr(self, 'op_' + nop['op'])(nop)
                after = getattr(self, attr)
                for key, holder in after.items():
                    if before.get(key) != holder:
                        gcp['born'][key] = gcp['tick']
                        if key == window_key:
                            # released and taken again inside the window of
                            # exactly this entry (provenance)
                            gcp['window'].add(key)
                            self.probes['gc_entry_retaken_in_window'] += 1
                        if key in gcp['pre'] and holder in gcp['added']:
                            self.probes['gc_entry_taken_over_by_newcomer'] \
                                += 1
        finally:
            self.in_nested = False
            self.seam.on_checkpoint = self._gc_checkpoint

    def _gc_probe(self, ref, live):
        alive = sum(1 for o in ref.values() if live(o))
        dead = len(ref) - alive
        if alive and dead:
            self.probes['gc_with_live_and_dead'] += 1
            self.nontrivial += 1
        self.probes['gc_reclaimed'] += dead

    def op_vip_gc(self, op):
        self._gc_pass('vip', op, self._pool(op)[0].garbage_collect)
        if self.violation is None:
            self._vip_check(op, dict(self.vip_ref), 'other')

    def op_vip_init(self, op):
        # a restart of the user of one pool: it drops what that pool handed
        # out ("remove any IP we own") - and nothing of the other pools
        pre = dict(self.vip_ref)
        pool, cidr = self._pool(op)
        exp = {ip: o for ip, o in pre.items()
               if ipaddress.IPv4Address(ip) not in cidr}
        if exp:
            self.probes['pool_initialized_while_others_hold_ips'] += 1
            if any(self.is_live(o) for o in exp.values()):
                self.nontrivial += 1
        pool.initialize()
        self._vip_check(op, exp, 'init', pre=pre)

    # ------------------------------------------------------------------
    # RuleMgr
    def _rules_actual(self):
        """{rule key (or raw name when unparseable): owner}."""
        out = {}
        for name, owner in netcheck.read_links(self.tm_env.rules_dir).items():
            parsed = rulefile.RuleMgr.get_rule(name)
            if parsed is None:
                out[('unparseable', name)] = owner
            else:
                key = rule_key(parsed[0], parsed[1])
                if key in out:
                    out[('duplicate', name)] = owner
                else:
                    out[key] = owner
        return out

    def _rule_check(self, op, expected, cls, by=None, pre=None):
        actual = self._rules_actual()
        bad = netcheck.compare('rule', actual, expected, {
            'op': op['op'], 'cls': cls, 'by': by, 'live': self.is_live,
            'pre': pre if pre is not None else self.rule_ref})
        if bad:
            self.fail(*bad)
            return
        got = {rule_key(c, r) for c, r in self.tm_env.rules.get_rules()}
        if got != set(expected):
            self.fail('C14:list-mismatch:rule',
                      'RuleMgr.get_rules() differs from the directory: %r' %
                      sorted(got ^ set(expected), key=repr))
        self.rule_ref = expected

    def op_rule_create(self, op):
        owner = op['owner']
        rule = rule_from_spec(op['rule'])
        key = rule_key(op['chain'], rule)
        pre = dict(self.rule_ref)
        exp = dict(pre)
        try:
            self.tm_env.rules.create_rule(op['chain'], rule, owner)
        except OSError as err:
            self.log.ev('rule_create', owner, 'OSError', err.errno)
            if key in pre and pre[key] != owner:
                self.probes['second_owner_create_refused'] += 1
                self.nontrivial += 1
        else:
            self.log.ev('rule_create', owner, 'ok')
            if key in pre:
                if pre[key] == owner:
                    self.probes['same_owner_recreate'] += 1
                # acknowledged while held by another owner: the directory
                # comparison below reports it (two owners) if it took effect.
            else:
                exp[key] = owner
        self._rule_check(op, exp, 'create', pre=pre)

    def op_rule_unlink(self, op):
        owner = op['owner']
        rule = rule_from_spec(op['rule'])
        key = rule_key(op['chain'], rule)
        pre = dict(self.rule_ref)
        exp = dict(pre)
        holder = pre.get(key)
        if holder == owner:
            del exp[key]
            cls = 'release-owner'
            self.probes['owner_releases'] += 1
        else:
            cls = 'release-nonowner'
            if holder is not None:
                self.probes['nonowner_release_attempts'] += 1
                self.nontrivial += 1
        try:
            self.tm_env.rules.unlink_rule(op['chain'], rule, owner)
        except OSError as err:
            self.log.ev('rule_unlink', owner, 'OSError', err.errno)
        self._rule_check(op, exp, cls, by=owner, pre=pre)

    def op_rule_gc(self, op):
        # the firewall watcher passes its watchdog lease: garbage_collect
        # calls lease.heartbeat() between two rules once `watchdog_heartbeat`
        # seconds have passed - the pass can be pre-empted there
        lease = _Lease(self.seam)
        self._gc_pass('rule', op, lambda: self.tm_env.rules.garbage_collect(
            watchdog_lease=lease, watchdog_heartbeat=1e-9))
        if self.violation is None:
            self._rule_check(op, dict(self.rule_ref), 'other')

    def op_rule_init(self, op):
        pre = dict(self.rule_ref)
        self.tm_env.rules.initialize()
        self._rule_check(op, {}, 'init', pre=pre)

    # ------------------------------------------------------------------
    # EndpointsMgr
    def _specs_actual(self):
        out = {}
        for name, owner in netcheck.read_links(
                self.tm_env.endpoints_dir).items():
            parts = tuple(name.split('~'))
            if len(parts) != 6:
                out[('unparseable', name)] = owner
            else:
                out[parts] = owner
        return out

    def _spec_check(self, op, expected, cls, by=None, pre=None):
        actual = self._specs_actual()
        bad = netcheck.compare('endpoint', actual, expected, {
            'op': op['op'], 'cls': cls, 'by': by,
            'live': self.spec_owner_live,
            'pre': pre if pre is not None else self.spec_ref})
        if bad:
            self.fail(*bad)
            return
        got = {tuple(s) for s in self.tm_env.endpoints.get_specs()}
        if got != set(expected):
            self.fail('C14:list-mismatch:endpoint',
                      'EndpointsMgr.get_specs() differs from the directory: '
                      '%r' % sorted(got ^ set(expected)))
        self.spec_ref = expected

    @staticmethod
    def _spec_key(spec):
        return (spec['app'], spec['proto'], spec['ep'], str(spec['rport']),
                str(spec['pid']), str(spec['port']))

    def op_spec_create(self, op):
        owner = op['owner']
        spec = op['spec']
        key = self._spec_key(spec)
        pre = dict(self.spec_ref)
        exp = dict(pre)
        try:
            self.tm_env.endpoints.create_spec(
                appname=spec['app'], proto=spec['proto'], endpoint=spec['ep'],
                real_port=spec['rport'], pid=spec['pid'], port=spec['port'],
                owner=os.path.join(self.apps_dir, owner))
        except OSError as err:
            self.log.ev('spec_create', owner, 'OSError', err.errno)
            if key in pre and pre[key] != owner:
                self.probes['second_owner_create_refused'] += 1
                self.nontrivial += 1
            elif key in pre:
                self.probes['spec_recreate_refused'] += 1
        else:
            self.log.ev('spec_create', owner, 'ok')
            if key not in pre:
                exp[key] = owner
            elif pre[key] == owner:
                self.probes['same_owner_recreate'] += 1
        self._spec_check(op, exp, 'create', pre=pre)

    def op_spec_unlink(self, op):
        owner = op['owner']
        spec = op['spec']
        key = self._spec_key(spec)
        pre = dict(self.spec_ref)
        exp = dict(pre)
        holder = pre.get(key)
        if holder == owner:
            del exp[key]
            cls = 'release-owner'
            self.probes['owner_releases'] += 1
        else:
            cls = 'release-nonowner'
            if holder is not None:
                self.probes['nonowner_release_attempts'] += 1
                self.nontrivial += 1
        try:
            self.tm_env.endpoints.unlink_spec(
                appname=spec['app'], proto=spec['proto'], endpoint=spec['ep'],
                real_port=spec['rport'], pid=spec['pid'], port=spec['port'],
                owner=os.path.join(self.apps_dir, owner))
        except OSError as err:
            self.log.ev('spec_unlink', owner, 'OSError', err.errno)
        self._spec_check(op, exp, cls, by=owner, pre=pre)

    def _unlink_all_expected(self, pre, app, proto, endpoint, owner):
        exp = {}
        removed = skipped = 0
        for key, holder in pre.items():
            match = (fnmatch.fnmatchcase(key[0], app) and
                     (proto is None or key[1] == proto) and
                     (endpoint is None or key[2] == endpoint))
            if match and (owner is None or holder == owner):
                removed += 1
                continue
            if match:
                skipped += 1
            exp[key] = holder
        self.probes['unlink_all_removed'] += removed
        self.probes['unlink_all_skipped_foreign'] += skipped
        if skipped:
            self.probes['nonowner_release_attempts'] += 1
            self.nontrivial += 1
        return exp

    def op_spec_unlink_all(self, op):
        owner = op['owner']
        pre = dict(self.spec_ref)
        exp = self._unlink_all_expected(pre, op['app'], op.get('proto'),
                                        op.get('ep'), owner)
        try:
            self.tm_env.endpoints.unlink_all(op['app'], proto=op.get('proto'),
                                             endpoint=op.get('ep'),
                                             owner=owner)
        except OSError as err:
            self.log.ev('spec_unlink_all', owner, 'OSError', err.errno)
        self._spec_check(op, exp, 'release-nonowner', by=owner, pre=pre)

    def op_spec_gc(self, op):
        self._gc_pass('endpoint', op, lambda: endpoints.garbage_collect(
            self.tm_env.endpoints_dir))
        if self.violation is None:
            self._spec_check(op, dict(self.spec_ref), 'other')

    def op_spec_init(self, op):
        pre = dict(self.spec_ref)
        self.tm_env.endpoints.initialize()
        self._spec_check(op, {}, 'init', pre=pre)

    def op_hs_register(self, op):
        """What sproc nodeinfo / tickets / keytabs do at start-up: remove the
        specs of earlier incarnations (by pattern, no owner), add their own
        (owner = /proc/<pid>)."""
        pid = op['pid']
        svc = op['svc']
        piddir = os.path.join(self.proc_dir, str(pid))
        if not os.path.exists(piddir):
            os.makedirs(piddir)
            self.hs[pid] = True
        pre = dict(self.spec_ref)
        exp = self._unlink_all_expected(pre, HS_HOST + '#*', 'tcp', svc, None)
        self.tm_env.endpoints.unlink_all(HS_HOST + '#*', endpoint=svc,
                                         proto='tcp')
        self._spec_check(op, exp, 'other', pre=pre)
        if self.violation:
            return
        appname = '%s#%010d' % (HS_HOST, pid)
        self.op_spec_create_raw(op, appname, svc, op['port'], pid, piddir)

    def op_spec_create_raw(self, op, appname, endpoint, port, pid, owner):
        key = (appname, 'tcp', endpoint, str(port), str(pid), str(port))
        pre = dict(self.spec_ref)
        exp = dict(pre)
        try:
            self.tm_env.endpoints.create_spec(
                appname=appname, endpoint=endpoint, proto='tcp',
                real_port=port, pid=pid, port=port, owner=owner)
        except OSError as err:
            self.log.ev('hs_register', pid, 'OSError', err.errno)
        else:
            if key not in pre:
                exp[key] = os.path.basename(owner)
        self._spec_check(op, exp, 'create', pre=pre)

    def op_hs_die(self, op):
        pid = op['pid']
        if pid not in self.hs:
            return
        shutil.rmtree(os.path.join(self.proc_dir, str(pid)))
        del self.hs[pid]

    # ------------------------------------------------------------------
    # network service process (the harness plays LinuxResourceService._run)
    def _svc_down(self):
        self.unprocessed_del = set()
        if self.watcher is not None:
            self.watcher.inotify.close()
        self.watcher = None
        self.impl = None

    def _client(self, name):
        return self.svc.make_client(
            os.path.join(self.apps_dir, name, 'data', 'resources', 'network'))

    def op_svc_start(self, op):
        if self.impl is not None:
            return
        self.probes['svc_restarts'] += 1
        live_before = self._live_requests()
        if live_before:
            self.probes['svc_restart_with_live_requests'] = \
                self.probes.get('svc_restart_with_live_requests', 0) + 1
            if self.prop == 'C14':
                self.nontrivial += 1
        self.ipt.actor = 'svc'
        # what the service acknowledged to requests that are still registered
        # and whose device is intact (its veth exists, is on the bridge and
        # carries the request's alias): the restart must not release it
        held = {}
        if self.prop == 'C14':
            for rid in live_before:
                ip = (self.req.get(rid) or {}).get('ip')
                dev = self.netdev.devs.get(
                    network_service._device_from_rsrc_id(rid)[0])
                if ip is not None and dev is not None and \
                        dev['master'] == 'br0' and dev['alias'] == rid:
                    held[rid] = ip
        bridge_creates = self.netdev.bridge_creates
        impl = network_service.NetworkResourceService(
            ext_device=EXT_DEV, ext_ip=EXT_IP, ext_mtu=9000, ext_speed=10000)
        watcher = None
        try:
            # LinuxResourceService._run passes its realpath-resolved _dir
            steps0 = self.seam.steps
            impl.initialize(self.svc._dir)
            self.init_steps = self.seam.steps - steps0
            watcher = simkit.with_os_resource(
                lambda: dirwatch.DirWatcher(self.rsrc_dir))
            watcher.on_created = lambda p: self.svc._on_created(impl, p)
            watcher.on_deleted = lambda p: self.svc._on_deleted(impl, p)
            watcher.on_modified = lambda p: self.svc._on_created(impl, p)
            for path in self.svc._check_requests():
                self.svc._on_created(impl, path)
            impl.synchronize()
        except simkit.SimCrash:
            self._bump(self.faults, 'svc_killed_mid_request')
            self.log.ev('svc_start', 'killed')
            if watcher is not None:
                watcher.inotify.close()
            self._netsvc_check(op, synced=False)
            return
        except Exception as err:  # pylint: disable=broad-except
            # an unhandled exception ends the service process (it is
            # restarted by the supervisor: a later svc_start op)
            self._bump(self.probes, 'svc_start_failed')
            self.log.ev('svc_start', 'died', type(err).__name__)
            if watcher is not None:
                watcher.inotify.close()
            if self.preempt_ran and isinstance(err, FileNotFoundError) and \
                    not self.seam.failed:
                # a client unregistered a request while the starting service
                # was handling it (its reply cannot be written): the service
                # process ends and is started again - not a statement of
                # C14 / C16
                self._bump(self.probes,
                           'svc_start_died_request_vanished_under_it')
            elif not self.seam.failed:
                self.fail('%s:netsvc-start-raised:%s' % (
                    self.prop, type(err).__name__),
                          'service start raised %r without an injected '
                          'fault' % (err,))
            self._netsvc_check(op, synced=False)
            return
        self.impl = impl
        self.watcher = watcher
        self.log.ev('svc_start', 'up', sorted(impl._devices))
        if held and self.netdev.bridge_creates == bridge_creates:
            # (a bridge that had to be re-created detaches every container:
            # recovery by destruction, left open)
            vips = netcheck.read_links(self.vips_dir)
            still = set(self._live_requests())
            for rid, ip in sorted(held.items()):
                if rid not in still or rid in self.preempt_touched:
                    # (or: unregistered / registered again during the start)
                    continue
                self.probes['net_held_ip_checked_after_restart'] += 1
                if vips.get(ip) != rid:
                    self.fail('C14:netsvc-released-held-ip%s' % (
                        ':then-held-by-another' if ip in vips else ''),
                              'the restarted service released ip %s, which it '
                              'had acknowledged to %s: the request is still '
                              'registered, its device was intact and it never '
                              'released anything%s' % (
                                  ip, rid, ' (now held by %s)' % vips[ip]
                                  if ip in vips else ''))
                    return
        # (clients that acted during the start left events the service has
        # not processed yet: the "synchronized" clauses do not apply)
        self._netsvc_check(op, synced=not self.preempt_ran,
                           exempt=self.seam.failed)

    def op_svc_restart(self, op):
        """The service process is replaced (watchdog kill, upgrade): down
        and up again in one op; a start that ends because a request vanished
        under it is repeated (supervisor)."""
        if self.impl is not None:
            self._svc_down()
            self._bump(self.faults, 'svc_restart')
        self.op_svc_start(op)
        if self.impl is None and self.violation is None and \
                self.preempt_ran and not self.seam.crashed:
            self.preempt = None
            self.op_svc_start(op)

    def op_svc_crash(self, op):
        if self.impl is None:
            return
        self._svc_down()
        self.faults['svc_crash'] = self.faults.get('svc_crash', 0) + 1

    def op_svc_step(self, op):
        if self.impl is None:
            return
        impl, watcher = self.impl, self.watcher
        self.ipt.actor = 'svc'
        maxev = impl.MAX_REQUEST_PER_CYCLE
        try:
            if watcher.event_list:
                res = watcher.process_events(max_events=maxev, resume=True)
            elif watcher.wait_for_events(timeout=0):
                res = watcher.process_events(max_events=maxev)
            else:
                res = []
            before = set(os.listdir(self.rsrc_dir))
            self.svc._check_requests()
            gone = before - set(os.listdir(self.rsrc_dir))
            self.probes['stale_requests_reclaimed'] += len(gone)
        except simkit.SimCrash:
            self._bump(self.faults, 'svc_killed_mid_request')
            self.log.ev('svc_step', 'killed')
            self._svc_down()
            self._netsvc_check(op, synced=False)
            return
        except Exception as err:  # pylint: disable=broad-except
            self._bump(self.probes, 'svc_died')
            self.log.ev('svc_step', 'died', type(err).__name__)
            self._svc_down()
            if not self.seam.failed:
                self.fail('%s:netsvc-raised:%s' % (self.prop,
                                                   type(err).__name__),
                          'service loop raised %r without an injected fault'
                          % (err,))
            return
        self.log.ev('svc_step', [(e.value, os.path.basename(p) if p else None,
                                  _jsonable(r)) for e, p, r in res])
        for event, path, _r in res:
            if event == dirwatch.DirWatcherEvent.DELETED:
                self.unprocessed_del.discard(os.path.basename(path))
        self._netsvc_check(op, synced=False)

    def wait_for_file(self, filename, timeout=None):
        """Stands in for services._base_service.wait_for_file (inotify wait
        with a real-time timeout): while a client waits, the network service
        works; gives up when the service is down or idle."""
        if timeout == 0:
            return os.path.exists(filename)
        seam = self.seam
        saved = (seam.crash_at, seam.fail_at, seam.steps, seam.commands,
                 seam.stat_fault, self.ipt.actor, self.sock.actor)
        # the service is another process: the kill / failure points of the
        # waiting process do not apply to it
        seam.crash_at = seam.fail_at = seam.stat_fault = None
        io_saved = self.io.suspend()
        # (nor do its pre-emption points: the steps counted are the waiting
        # process's own)
        pre_saved, self.preempt = self.preempt, None
        try:
            for _ in range(200):
                if os.path.exists(filename):
                    return True
                if self.impl is None or not (self.svc_pending() or
                                             self._stale_links()):
                    break
                self.op_svc_step({'op': 'svc_step'})
                if self.violation is not None:
                    break
            found = os.path.exists(filename)
            if not found:
                self.clock.advance(timeout or _base_service.DEFAULT_TIMEOUT)
            return found
        finally:
            (seam.crash_at, seam.fail_at, seam.steps, seam.commands,
             seam.stat_fault, self.ipt.actor, self.sock.actor) = saved
            self.io.resume(io_saved)
            self.preempt = pre_saved

    def svc_pending(self):
        if self.impl is None:
            return False
        return bool(self.watcher.event_list or
                    self.watcher.wait_for_events(timeout=0))

    def _live_requests(self):
        out = []
        try:
            names = os.listdir(self.rsrc_dir)
        except FileNotFoundError:
            return out
        for name in sorted(names):
            if name.startswith('.'):
                continue
            if os.path.exists(os.path.join(self.rsrc_dir, name)):
                out.append(name)
        return out

    def _reply_of(self, rid):
        path = os.path.join(self.rsrc_dir, rid, _base_service.REP_FILE)
        try:
            with open(path) as f:
                return yaml.safe_load(f)
        except FileNotFoundError:
            return None

    def _netsvc_check(self, op, synced, exempt=False):
        if self.prop != 'C14':
            return
        vips = netcheck.read_links(self.vips_dir)
        for ip in sorted(vips):
            try:
                inside = ipaddress.IPv4Address(ip) in NET_CIDR
            except ValueError:
                inside = False
            if not inside:
                self.fail('C14:ip-outside-network',
                          'network service vip %r is not in %s' % (
                              ip, NET_CIDR))
                return
        live = self._live_requests()
        for rid in list(self.req):
            if rid not in live:
                del self.req[rid]
        held_by = {}
        for ip, rid in sorted(vips.items()):
            if rid in held_by and rid in live and not (
                    self.faulted or self.seam.failed or self.seam.crashed):
                self.fail('C14:netsvc-request-holds-two-ips' + (
                    ':id-requested-again-before-its-delete-was-processed'
                    if rid in self.raced else ''),
                          'request %s holds %s and %s: a repeat did not keep '
                          'its ip (after %s)' % (rid, held_by[rid], ip,
                                                 op['op']))
                return
            if rid in held_by:
                # only reachable after an injected fault (a failed delete
                # leaks the old ip until synchronize): which of its own two
                # addresses a restarted service re-reads is then open
                self.leaky.add(rid)
            held_by[rid] = ip
        self.leaky &= set(live)
        holders = {}

        def prov(*rids):
            if any(r in self.del_in_start for r in rids):
                # (unregistered by its client between two steps of a
                # service start, registered again later)
                return ':request-deleted-during-service-start'
            if any(r in self.raced for r in rids):
                return ':id-requested-again-before-its-delete-was-processed'
            return ''
        for rid in live:
            reply = self._reply_of(rid)
            ent = self.req.setdefault(rid, {'ip': None})
            if not isinstance(reply, dict):
                continue
            if '_error' in reply:
                # the service told the client the request failed: whatever
                # it was told before no longer stands
                ent['ip'] = None
                self.probes['net_replies_error'] += 1
                continue
            self.probes['net_replies_ok'] += 1
            ip = reply.get('vip')
            if ip in holders:
                self.fail('C14:vip-two-owners:netsvc' + prov(holders[ip], rid),
                          'requests %s and %s were both told ip %s' % (
                              holders[ip], rid, ip))
                return
            holders[ip] = rid
            if vips.get(ip) != rid:
                if ip in vips:
                    self.fail('C14:vip-two-owners:netsvc' + prov(rid, vips[ip]),
                              'live request %s was told ip %s, which the '
                              'vips directory gives to %s (after %s)' % (
                                  rid, ip, vips[ip], op['op']))
                else:
                    self.fail('C14:netsvc-reply-ip-not-held' + prov(rid),
                              'live request %s was told ip %s, which is not '
                              'allocated any more (after %s)' % (
                                  rid, ip, op['op']))
                return
            if (ent['ip'] is not None and ent['ip'] != ip and
                    rid not in self.leaky):
                self.fail('C14:netsvc-ip-changed' + prov(rid),
                          'request %s had ip %s and now has %s (after %s)' %
                          (rid, ent['ip'], ip, op['op']))
                return
            if ent['ip'] == ip and synced:
                self.probes['net_same_ip_after_restart'] += 1
            ent['ip'] = ip
        if synced and not exempt:
            for ip, rid in sorted(vips.items()):
                if rid not in live:
                    self.fail('C14:netsvc-sync-kept-dead',
                              'after synchronize ip %s is still held for %s, '
                              'which has no request' % (ip, rid))
                    return

    # -- requests (C14)
    def op_net_put(self, op):
        name = op['owner']
        if name not in self.owners:
            return
        self.probes['net_requests'] += 1
        if name in self.unprocessed_del:
            self.raced.add(name)
            self.probes['id_requested_again_before_delete_processed'] += 1
        self._client(name).put(name, {'environment': op['env']})
        self.req.setdefault(name, {'ip': None})

    def op_net_del(self, op):
        name = op['owner']
        if name not in self.owners:
            return
        if self.impl is not None and \
                os.path.lexists(os.path.join(self.rsrc_dir, name)):
            self.unprocessed_del.add(name)
        self._client(name).delete(name)
        self.req.pop(name, None)

    # ------------------------------------------------------------------
    # C16: containers
    def host_snapshot(self):
        return {'rules': netcheck.read_links(self.tm_env.rules_dir),
                'endpoints': netcheck.read_links(self.tm_env.endpoints_dir),
                'ipsets': self.ipt.snapshot(),
                'vips': netcheck.read_links(self.vips_dir)}

    def op_c_request(self, op):
        name = op['name']
        if name in self.cont or name in self.owners:
            return
        man = op['manifest']
        data_dir = os.path.join(self.apps_dir, name, 'data')
        os.makedirs(data_dir)
        self.owners[name] = True
        self.cont[name] = {'manifest': man, 'state': 'requested',
                           'finished': 0, 'data': data_dir, 'created': None,
                           'inst': man['name'], 'ports': []}
        # the network request itself is made by runtime.linux._run.run()

    def op_c_start(self, op):
        name = op['name']
        cont = self.cont.get(name)
        if cont is None or cont['state'] != 'requested' or \
                name not in self.owners:
            return
        man = _copy(cont['manifest'])
        for key, value in (('memory', '100M'), ('cpu', 10), ('disk', '100M')):
            man.setdefault(key, value)
        data_dir = cont['data']
        for other in self.cont.values():
            if other is not cont and other['inst'] == cont['inst'] and \
                    other['created'] and not other['finished']:
                self.probes['same_instance_overlap'] += 1
        pre = self.host_snapshot()
        self.sock.actor = name
        self.ipt.actor = name
        self.rnd.key = op.get('rkey', 0)
        self.rnd.calls = 0
        self.pid.pid = op.get('pid', 1)
        coll0 = self.sock.collisions
        sockets = []
        vip = None
        try:
            if man['shared_network']:
                # run() would wait 15 min for a network reply it never asked
                # for; the harness performs the remaining steps in its order
                app_network = {'vip': None, 'veth': None, 'gateway': None,
                               'external_ip': EXT_IP}
                man['network'] = app_network
                man['vip'] = {'ip0': None, 'ip1': None}
                sockets = runtime.allocate_network_ports(EXT_IP, man)
                runtime.save_app(man, data_dir)
                for sock in sockets:
                    sock.close()
            else:
                # the real run(): resource requests, wait for the replies
                # (the network service works while the start waits), port
                # allocation, save_app, _unshare_network, presence
                # registration in the code's own order, up to exec_pid1
                # (root volume, image, mounts, apphook are stand-ins)
                self.tm_env.svc_presence.fault = op.get('presence_fault')
                self.tm_env.svc_presence.fired = 0
                try:
                    _run.run(self.tm_env, _RuntimeConfig, data_dir, man)
                    raise simkit.HarnessError('run() went past the stub')
                except _PastNetwork:
                    pass
                vip = (man.get('network') or {}).get('vip')
            cont['state'] = 'started'
            self.probes['starts_ok'] += 1
            self.log.ev('c_start', name, 'ok')
        except simkit.SimCrash:
            cont['state'] = 'killed'
            self.faults['start_killed'] += 1
            self.sock.release(name)
            self.log.ev('c_start', name, 'killed', self.seam.steps)
        except exc.ContainerSetupError as err:
            cont['state'] = 'failed'
            self.probes['starts_failed'] += 1
            self.sock.release(name)
            self.log.ev('c_start', name, 'setup-error', str(err))
        except Exception as err:  # pylint: disable=broad-except
            # the start aborts (the container is then finished): a legal
            # outcome as far as C16 is concerned
            cont['state'] = 'failed'
            self.probes['starts_failed'] += 1
            self.sock.release(name)
            # (the scratch root differs from run to run)
            self.log.ev('c_start', name, 'aborted', type(err).__name__,
                        str(err).replace(self.root, '<root>')[:80])
        if self.prop == 'C16' and self.tm_env.svc_presence.fired:
            self.faults['presence_failed'] += 1
        self.tm_env.svc_presence.fault = None
        self.tm_env.svc_presence.fired = 0
        collided = self.sock.collisions - coll0
        if collided:
            self.probes['port_collisions'] += collided
            self.faults['eaddrinuse'] += collided
        post = self.host_snapshot()
        cont['created'] = netcheck.diff_added(pre, post)
        cont['ports'] = sorted(p for (_t, p), who in self.sock.bound.items()
                               if who == name)
        if any(p in self.dead_ports for p in cont['ports']):
            self.probes['port_reused_after_death'] += 1
        if vip is None and isinstance(man.get('network'), dict):
            vip = man['network'].get('vip')
        if vip is not None:
            if self.ever_ips.get(vip, name) != name:
                self.probes['ip_reused'] += 1
            self.ever_ips[vip] = name

    def op_c_finish(self, op):
        name = op['name']
        cont = self.cont.get(name)
        if cont is None or name not in self.owners:
            return
        if cont['finished'] and not self.in_preempt:
            # (the repeated-finish clause compares the whole host state:
            # only a first finish is pre-empted)
            self.preempt = None
        if cont['state'] == 'requested':
            # finished without ever being started: it will not start later
            cont['state'] = 'aborted'
        # the container's processes are gone: the kernel closed its sockets
        for port in cont['ports']:
            self.dead_ports.add(port)
        self.sock.release(name)
        data_dir = cont['data']
        self.sock.actor = name
        self.ipt.actor = name
        self.ipt.removed_foreign = []
        others = any(c['created'] and not c['finished'] and
                     (c['created']['rules'] or c['created']['ipsets'])
                     for n, c in self.cont.items() if n != name)
        pre = self.host_snapshot()
        complete = False
        try:
            app = runtime.load_app_safe(name, data_dir)
            # as _finish._cleanup does
            if app and hasattr(app, 'shared_network') and \
                    not app.shared_network:
                _finish._cleanup_network(self.tm_env, data_dir, app,
                                         self._client(name))
            complete = True
            self.log.ev('c_finish', name, 'complete')
        except simkit.SimCrash:
            self.faults['finish_killed'] += 1
            cont['finish_killed'] = True
            self.log.ev('c_finish', name, 'killed', self.seam.steps)
        except Exception as err:  # pylint: disable=broad-except
            # a finish that fails is a legitimately failed operation: it is
            # retried later (the leftover clause applies to the finish that
            # succeeds)
            self.log.ev('c_finish', name, 'raised', type(err).__name__)
            cont['finish_failed'] = True
            if self.io.fired:
                self.probes['finish_raised_on_io_error'] += 1
            if not self.seam.failed:
                self.fail('C16:finish-raised:%s' % type(err).__name__,
                          'finish of %s raised %r without an injected fault '
                          '(finish #%d)' % (name, err, cont['finished'] + 1))
                return
        post = self.host_snapshot()
        removed = sum(1 for s in ('rules', 'endpoints')
                      for k in pre[s] if k not in post[s])
        if removed:
            self.probes['finish_removed_entries'] += removed
            if others:
                self.probes['finish_with_others_registered'] += 1
                self.nontrivial += 1
        bad = netcheck.finish_checks(name, pre, post, self.ipt.removed_foreign,
                                     complete, self.ipt.creators)
        if bad:
            self.fail(*bad)
            return
        if cont['finished'] and post != pre:
            diff = netcheck.first_difference(pre, post)
            self.fail('C16:repeated-finish-changed-state:%s' % diff[0],
                      'finish #%d of %s (already finished) changed the host '
                      'state: %s' % (cont['finished'] + 1, name, diff[1]))
            return
        if complete:
            if cont['finished']:
                self.probes['finishes_repeated'] += 1
            if cont.get('finish_killed'):
                self.faults['finish_killed_then_repeated'] += 1
                cont['finish_killed'] = False
            if cont.get('finish_failed'):
                self.probes['finish_failed_then_retried'] += 1
                cont['finish_failed'] = False
            self.probes['finishes_complete'] += 1
            cont['finished'] += 1

    def op_c_remove(self, op):
        """Cleanup removes the container directory after a finish."""
        name = op['name']
        cont = self.cont.get(name)
        if cont is None or not cont['finished'] or name not in self.owners:
            return
        shutil.rmtree(os.path.join(self.apps_dir, name))
        del self.owners[name]

    def op_port_busy(self, op):
        key = (op['type'], op['port'])
        if op['busy']:
            if key not in self.sock.bound:
                self.sock.foreign.add(key)
        else:
            self.sock.foreign.discard(key)

    def op_drain(self, op):
        """Finish whatever is not finished, remove the container directories,
        let the service settle; then the host must be as it was initially."""
        for name in sorted(self.cont):
            cont = self.cont[name]
            if name not in self.owners:
                continue
            if not cont['finished']:
                self.seam.begin(order=op.get('ord', 0))
                self.op_c_finish({'op': 'c_finish', 'name': name})
                if self.violation:
                    return
            self.op_c_remove({'op': 'c_remove', 'name': name})
        for _ in range(100):
            if not self.svc_pending() and not self._stale_links():
                break
            self.seam.begin(order=op.get('ord', 0))
            self.op_svc_step({'op': 'svc_step'})
            if self.violation or self.impl is None:
                break
        else:
            raise simkit.HarnessError('service does not settle')
        if self.violation:
            return
        if self.impl is None:
            return
        if any(not c['finished'] for n, c in self.cont.items()):
            return
        self.probes['drain_checks'] += 1
        final = self.host_snapshot()
        diff = netcheck.first_difference(self.initial, final)
        if diff:
            self.fail('C16:host-state-differs-after-all-finished:%s' % diff[0],
                      'every started container has finished, its directory '
                      'was removed and the network service is idle, but: %s'
                      % diff[1])

    def _stale_links(self):
        try:
            names = os.listdir(self.rsrc_dir)
        except FileNotFoundError:
            return False
        return any(not n.startswith('.') and
                   not os.path.exists(os.path.join(self.rsrc_dir, n))
                   for n in names)


def _copy(obj):
    if isinstance(obj, dict):
        return {k: _copy(v) for k, v in obj.items()}
    if isinstance(obj, list):
        return [_copy(v) for v in obj]
    return obj


def _jsonable(obj):
    if obj is None or isinstance(obj, (bool, int, str)):
        return obj
    if isinstance(obj, dict):
        return {str(k): _jsonable(v) for k, v in sorted(obj.items())}
    return repr(obj)


# ---------------------------------------------------------------------------
# generation

C14_WEIGHTS = [
    ('owner_add', 8), ('owner_del', 5),
    ('vip_alloc', 10), ('vip_free', 8), ('vip_gc', 4), ('vip_init', 0.4),
    ('rule_create', 10), ('rule_unlink', 8), ('rule_gc', 4),
    ('rule_init', 0.3),
    ('spec_create', 10), ('spec_unlink', 6), ('spec_unlink_all', 5),
    ('spec_gc', 4), ('spec_init', 0.3), ('hs_register', 2), ('hs_die', 1),
    ('net_put', 9), ('net_del', 5), ('svc_step', 10), ('svc_crash', 2),
    ('svc_start', 5), ('advance', 1),
]

C16_WEIGHTS = [
    ('c_request', 10), ('svc_step', 14), ('c_start', 13), ('c_finish', 11),
    ('c_remove', 4), ('port_busy', 2), ('advance', 1),
]

# transient failures of open(2) / read(2) (never ENOENT: that is an answer)
IO_ERRNOS = (errno.EIO, errno.ENFILE, errno.EMFILE, errno.ENOMEM,
             errno.EACCES)
# I/O points (io.open + reads) of a complete start / finish of a private
# network container on this tree: request.yml, svc_req_id (r, w), reply.yml /
# state.json, reply.yml, svc_req_id.  Upper bounds for the generator only.
IO_POINTS_START = 6
IO_POINTS_FINISH = 7

APPS = ('proid.web', 'proid.webx', 'proid.db')
SPEC_APPS = ('proid.web#0000000001', 'proid.web#00000000010',
             'proid.webx#0000000001', 'proid.db#0000000002')
IPS = ('192.168.1.1', '192.168.1.2', '192.168.1.12', '10.10.1.5')
PORTS = (80, 8000, 8080, 32768)


class Generator:
    def __init__(self, config, streams, prop):
        self.config = config
        self.prop = prop
        self.rng = streams.get('gen')
        self.frng = streams.get('fault')
        self.orng = streams.get('fsorder')
        # (a stream of its own: the other decisions of a seed are what they
        # were before this fault kind existed)
        self.irng = streams.get('iofault')
        # within-operation pre-emption, service restarts of C16 (likewise)
        self.prng = streams.get('preempt')
        self.reput = None
        self.count = 0
        self.queue = []      # staged scenario: callables (world) -> op | None
        table = C14_WEIGHTS if prop == 'C14' else C16_WEIGHTS
        self.weights = [(k, w * config['wmul'].get(k, 1.0)) for k, w in table]
        self.n = 0
        self.pids = 100

    def order(self):
        if self.config['permute'] and self.orng.random() < 0.7:
            return self.orng.randint(1, 1 << 30)
        return 0

    def next_op(self, world):
        self.count += 1
        staged = self.config.get('staged')
        if staged and self.count == staged['at']:
            getattr(self, 'stage_' + staged['name'])(world)
        while self.queue:
            op = self.queue.pop(0)(world)
            if op is not None:
                return op
        op = self._preempt_first(world)
        if op is not None:
            return op
        op = self._next_op(world)
        if op['op'] in World.PREEMPTIBLE:
            self._with_preempt(world, op)
        return op

    def _preempt_first(self, world):
        prng = self.prng
        if self.prop == 'C16':
            if world.impl is not None and \
                    prng.random() < self.config.get('p_svc_restart', 0.0):
                op = {'op': 'svc_restart', 'ord': self.order()}
                self._with_preempt(world, op)
                return op
            return None
        name, self.reput = self.reput, None
        if name is not None and name in world.owners and \
                prng.random() < 0.6:
            # the container whose request was just deleted starts again
            # under the same id before the service has caught up
            return {'op': 'net_put', 'owner': name,
                    'env': prng.choice(ENVS)}
        return None

    # -- staged scenarios (config['staged']): the setting is built, the
    # decisive choices (which step, how far the service gets) stay seeded
    def stage_delete_split_reput(self, world):
        """C14: a finishing container's delete() is caught between two of
        its steps while the service handles other events; the container is
        started again under the same id before the service caught up; one
        more request."""
        prng = self.prng
        x, z, y = (self._new_name()[2] for _ in range(3))
        env = prng.choice(ENVS)
        step = lambda _w: {'op': 'svc_step', 'ord': 0}
        fixed = lambda op: (lambda _w: op)
        if world.impl is None:
            self.queue.append(fixed({'op': 'svc_start', 'ord': 0}))
        for name in (x, z):
            self.queue.append(fixed({'op': 'owner_add', 'name': name}))
            self.queue.append(fixed({'op': 'net_put', 'owner': name,
                                     'env': prng.choice(ENVS)}))
        self.queue += [step] * 4
        if prng.random() < 0.8:
            self.queue.append(fixed({'op': 'net_del', 'owner': z}))
        self.queue.append(fixed({
            'op': 'net_del', 'owner': x, 'preempt': [{
                'at': prng.randint(2, 3),
                'ops': [{'op': 'svc_step'}] * prng.randint(1, 2)}]}))
        if prng.random() < 0.3:
            self.queue.append(step)
        self.queue.append(fixed({'op': 'net_put', 'owner': x, 'env': env}))
        self.queue += [step] * prng.randint(1, 2)
        self.queue.append(fixed({'op': 'owner_add', 'name': y}))
        self.queue.append(fixed({'op': 'net_put', 'owner': y,
                                 'env': prng.choice(ENVS)}))
        self.queue += [step] * 2

    def stage_restart_during_finish(self, world):
        """C16: the network service is replaced while a started container
        is being finished (the finish runs between two steps of the replay
        of the existing requests)."""
        app, task, name = self._new_name()
        man = self._manifest(app, task, name.rsplit('-', 1)[1])
        man['shared_network'] = False
        self.pids += 1
        pid = self.pids
        self.queue.append(lambda _w: {'op': 'c_request', 'name': name,
                                      'manifest': man})
        self.queue.append(lambda _w: {
            'op': 'c_start', 'name': name, 'pid': pid,
            'rkey': self.prng.randint(1, 1 << 30), 'ord': 0})

        def restart(wld):
            nlive = len(wld._live_requests())
            return {'op': 'svc_restart', 'ord': self.order(), 'preempt': [{
                'at': wld.init_steps + self.prng.randint(1, 4 * nlive + 2),
                'ops': [{'op': 'c_finish', 'name': name}]}]}
        self.queue.append(restart)

    def _with_preempt(self, world, op):
        """Operations of other actors between two steps of this op."""
        prng = self.prng
        kind = op['op']
        if prng.random() >= self.config.get('p_preempt', 0.0) or \
                any(k in op for k in ('crash_at', 'fail_at', 'stat_fault',
                                      'io_fault')):
            return
        if kind in ('svc_start', 'svc_restart'):
            nlive = len(world._live_requests())
            if not nlive:
                return
            if prng.random() < 0.85:
                # in the replay of the existing requests (about four steps
                # per request) or the synchronisation after it
                at = world.init_steps + prng.randint(1, 4 * nlive + 2)
            else:
                at = prng.randint(1, max(1, world.init_steps))
            if self.prop == 'C16':
                names = sorted(n for n, c in world.cont.items()
                               if n in world.owners and
                               c['state'] != 'requested')
                todo = [n for n in names if not world.cont[n]['finished']]
                if not names:
                    return
                nested = [{'op': 'c_finish', 'name': prng.choice(
                    todo if todo and prng.random() < 0.85 else names)}]
            else:
                live = world._live_requests()
                if prng.random() < 0.6:
                    nested = [{'op': 'net_del', 'owner': prng.choice(live)}]
                else:
                    owners = sorted(world.owners)
                    if not owners:
                        return
                    nested = [{'op': 'net_put', 'owner': prng.choice(owners),
                               'env': prng.choice(ENVS)}]
        elif kind == 'c_finish':
            cont = world.cont[op['name']]
            if cont['finished'] or cont['state'] != 'started':
                return
            total = self._finish_steps(cont)
            # (the request is deleted by the last steps of a finish)
            at = max(1, total - prng.randint(0, 3)) \
                if prng.random() < 0.6 else prng.randint(1, total)
            nested = [{'op': 'svc_step'}]
        else:
            at = prng.randint(1, 4 if kind == 'net_put' else 3)
            others = [n for n in world._live_requests()
                      if n != op['owner'] and n in world.owners]
            nested = []
            r = prng.random()
            if others and r < 0.5:
                nested.append({'op': 'net_del',
                               'owner': prng.choice(others)})
            elif r < 0.65:
                owners = [n for n in sorted(world.owners)
                          if n != op['owner']]
                if owners:
                    nested.append({'op': 'net_put',
                                   'owner': prng.choice(owners),
                                   'env': prng.choice(ENVS)})
            if not nested or prng.random() < 0.85:
                nested += [{'op': 'svc_step'}] * prng.randint(1, 2)
            if kind == 'net_del':
                self.reput = op['owner']
        op['preempt'] = [{'at': at, 'ops': nested}]

    def _next_op(self, world):
        for _ in range(30):
            kind = rngmod.weighted(self.rng, self.weights)
            if kind == 'svc_start' and world.impl is not None:
                continue
            if world.impl is None and self.rng.random() < 0.35:
                kind = 'svc_start'
            op = getattr(self, 'g_' + kind)(world)
            if op is not None:
                op['op'] = kind
                return op
        return {'op': 'advance', 'dt': 1.0}

    # -- names
    def _new_name(self):
        self.n += 1
        app = self.rng.choice(APPS)
        task = self.rng.randint(1, 3)
        uid = '%013x' % (rngmod.mix('uid', self.n) & 0xfffffffffffff)
        return app, task, '%s-%010d-%s' % (app, task, uid)

    def _owner(self, world, live=None):
        names = sorted(world.owners)
        if live is False or (live is None and self.rng.random() < 0.12):
            return 'proid.ghost-0000000001-%013x' % self.rng.randint(1, 3)
        return self.rng.choice(names) if names else None

    # -- C14
    def g_owner_add(self, world):
        if len(world.owners) >= self.config['max_owners']:
            return None
        return {'name': self._new_name()[2]}

    def g_owner_del(self, world):
        names = sorted(world.owners)
        if not names:
            return None
        return {'name': self.rng.choice(names)}

    def g_advance(self, world):
        return {'dt': self.rng.choice([1.0, 30.0, 61.0, 3600.0])}

    def g_vip_alloc(self, world):
        owner = self._owner(world)
        if owner is None:
            return None
        pool = self.rng.randrange(len(world.cidrs))
        op = {'owner': owner}
        if pool:
            op['pool'] = pool
        if self.rng.random() < 0.3:
            hosts = list(world.cidrs[pool])
            if self.rng.random() < 0.15:
                op['ip'] = '10.99.0.%d' % self.rng.randint(1, 3)
            elif world.vip_ref and self.rng.random() < 0.5:
                op['ip'] = self.rng.choice(sorted(world.vip_ref))
            else:
                op['ip'] = str(self.rng.choice(hosts))
        return op

    def g_vip_free(self, world):
        if not world.vip_ref:
            return None
        ip = self.rng.choice(sorted(world.vip_ref))
        if self.rng.random() < 0.5:
            owner = world.vip_ref[ip]
        else:
            owner = self._owner(world)
        if owner is None:
            return None
        return self._some_pool(world, {'owner': owner, 'ip': ip})

    def _some_pool(self, world, op):
        pool = self.rng.randrange(len(world.cidrs))
        if pool:
            op['pool'] = pool
        return op

    @staticmethod
    def _pool_of(world, ip):
        for idx, cidr in enumerate(world.cidrs):
            if ipaddress.IPv4Address(ip) in cidr:
                return idx
        return 0

    def g_vip_gc(self, world):
        return self._with_during(world, 'vip', self._some_pool(
            world, {'ord': self.order()}))

    def g_vip_init(self, world):
        return self._some_pool(world, {'ord': self.order()})

    def _rule_spec(self):
        rng = self.rng
        kind = rng.choice(['dnat', 'dnat', 'snat', 'pt'])
        if kind == 'pt':
            return real_iptables.PREROUTING_PASSTHROUGH, {
                't': 'pt', 'src_ip': rng.choice(IPS), 'dst_ip': rng.choice(IPS)}
        chain = rng.choice(CHAINS[:2])
        spec = {'t': kind, 'proto': rng.choice(['tcp', 'udp']),
                'new_ip': rng.choice(IPS), 'new_port': rng.choice(PORTS)}
        for fld, pool in (('src_ip', IPS), ('dst_ip', IPS),
                          ('src_port', PORTS), ('dst_port', PORTS)):
            spec[fld] = rng.choice(pool) if rng.random() < 0.5 else None
        return chain, spec

    def g_rule_create(self, world):
        owner = self._owner(world)
        if owner is None:
            return None
        if world.rule_ref and self.rng.random() < 0.35:
            # an entry that is held: same rule, or all but one field the same
            _key, chain, spec = self._held_rule(world)
            if self.rng.random() < 0.5:
                if spec['t'] == 'pt':
                    spec[self.rng.choice(['src_ip', 'dst_ip'])] = \
                        self.rng.choice(IPS)
                else:
                    fld = self.rng.choice(['proto', 'src_ip', 'dst_ip',
                                           'src_port', 'dst_port', 'new_ip',
                                           'new_port'])
                    spec[fld] = self.rng.choice(
                        ['tcp', 'udp'] if fld == 'proto' else
                        IPS if fld.endswith('ip') else PORTS)
        else:
            chain, spec = self._rule_spec()
        return {'owner': owner, 'chain': chain, 'rule': spec}

    def _with_during(self, world, kind, op):
        """Attach operations of other owners to run inside the GC pass,
        biased to: a newcomer takes an entry that exists / was just
        released (by its dead or live holder)."""
        rng = self.rng
        if self.frng.random() < self.config.get('p_stat_fault', 0.0):
            return self._with_stat_fault(world, kind, op)
        if rng.random() >= self.config.get('p_during', 0.0):
            return op
        if kind == 'vip':
            ref = dict(world.vip_ref)
        elif kind == 'rule':
            ref = dict(world.rule_ref)
        else:
            ref = {k: o for k, o in world.spec_ref.items() if len(k) == 6 and
                   not k[0].startswith(HS_HOST)}
        if not ref:
            return op
        keys = sorted(ref, key=repr)
        nested = []
        r = rng.random()
        if r < 0.65:
            taker = self._new_name()[2]
            nested.append({'op': 'owner_add', 'name': taker})
        else:
            taker = self._owner(world)
            if taker is None:
                return op
        holders = sorted(set(ref.values()))
        if rng.random() < 0.25:
            alive = [o for o in holders if o in world.owners]
            if alive:
                nested.append({'op': 'owner_del', 'name': rng.choice(alive)})
        if rng.random() < 0.2:
            dead = [o for o in holders if o not in world.owners and
                    o.count('-') >= 2]
            if dead:
                nested.append({'op': 'owner_add', 'name': rng.choice(dead)})
        rng.shuffle(keys)
        for key in keys[:rng.randint(1, 3)]:
            holder = ref[key]
            release = rng.random() < 0.85
            if kind == 'vip':
                if release:
                    nested.append({'op': 'vip_free', 'owner': holder,
                                   'ip': key})
                nested.append({'op': 'vip_alloc', 'owner': taker, 'ip': key,
                               'pool': self._pool_of(world, key)})
            elif kind == 'rule':
                chain, spec = self._rule_of_key(key)
                if release:
                    nested.append({'op': 'rule_unlink', 'owner': holder,
                                   'chain': chain, 'rule': dict(spec)})
                nested.append({'op': 'rule_create', 'owner': taker,
                               'chain': chain, 'rule': dict(spec)})
            else:
                spec = {'app': key[0], 'proto': key[1], 'ep': key[2],
                        'rport': int(key[3]), 'pid': int(key[4]),
                        'port': int(key[5])}
                if release:
                    nested.append({'op': 'spec_unlink', 'owner': holder,
                                   'spec': dict(spec)})
                nested.append({'op': 'spec_create', 'owner': taker,
                               'spec': dict(spec)})
        dead_keys = [k for k in sorted(ref, key=repr)
                     if ref[k] not in world.owners and
                     not (kind == 'endpoint' and world.spec_owner_live(ref[k]))]
        if dead_keys and rng.random() < 0.12:
            # aim at the window between the stat() that finds an entry
            # ownerless and its unlink(): release + re-take exactly that entry
            key = rng.choice(dead_keys)
            holder = ref[key]
            wops = [n for n in nested if n['op'] == 'owner_add' and
                    n['name'] == taker]
            if kind == 'vip':
                name = key
                wops += [{'op': 'vip_free', 'owner': holder, 'ip': key},
                         {'op': 'vip_alloc', 'owner': taker, 'ip': key,
                          'pool': self._pool_of(world, key)}]
            elif kind == 'rule':
                chain, spec = self._rule_of_key(key)
                name = rulefile.RuleMgr._filenameify(chain,
                                                     rule_from_spec(spec))
                wops += [{'op': 'rule_unlink', 'owner': holder,
                          'chain': chain, 'rule': dict(spec)},
                         {'op': 'rule_create', 'owner': taker,
                          'chain': chain, 'rule': dict(spec)}]
            else:
                name = '~'.join(key)
                spec = {'app': key[0], 'proto': key[1], 'ep': key[2],
                        'rport': int(key[3]), 'pid': int(key[4]),
                        'port': int(key[5])}
                wops += [{'op': 'spec_unlink', 'owner': holder,
                          'spec': dict(spec)},
                         {'op': 'spec_create', 'owner': taker,
                          'spec': dict(spec)}]
            op['during'] = [{'window': name, 'ops': wops}]
            return op
        op['during'] = [{'at': rng.randint(1, max(1, min(len(ref), 3))),
                         'ops': nested}]
        return op

    def _with_stat_fault(self, world, kind, op):
        """The lookup of one entry's owner fails with a transient / access
        error (not ENOENT) during the pass; biased to live holders."""
        frng = self.frng
        if kind == 'vip':
            ref = dict(world.vip_ref)
        elif kind == 'rule':
            ref = dict(world.rule_ref)
        else:
            ref = {k: o for k, o in world.spec_ref.items() if len(k) == 6}
        if not ref:
            return op
        keys = sorted(ref, key=repr)
        live = [k for k in keys if world.spec_owner_live(ref[k])]
        key = frng.choice(live) if live and frng.random() < 0.8 else \
            frng.choice(keys)
        if kind == 'vip':
            name = key
        elif kind == 'rule':
            chain, spec = self._rule_of_key(key)
            name = rulefile.RuleMgr._filenameify(chain, rule_from_spec(spec))
        else:
            name = '~'.join(key)
        op['stat_fault'] = {'name': name, 'errno': frng.choice(
            [errno.EIO, errno.ESTALE, errno.EACCES])}
        return op

    @staticmethod
    def _rule_of_key(key):
        if key[1] == 'pt':
            return key[0], {'t': 'pt', 'src_ip': key[2], 'dst_ip': key[3]}
        return key[0], {'t': key[1], 'proto': key[2],
                        'src_ip': None if key[3] == '*' else key[3],
                        'src_port': key[4] or None,
                        'dst_ip': None if key[5] == '*' else key[5],
                        'dst_port': key[6] or None,
                        'new_ip': key[7], 'new_port': key[8]}

    def _held_rule(self, world):
        # reconstruct (chain, spec) of a held rule from its key
        key = self.rng.choice(sorted(world.rule_ref, key=repr))
        if key[1] == 'pt':
            return key, key[0], {'t': 'pt', 'src_ip': key[2],
                                 'dst_ip': key[3]}
        spec = {'t': key[1], 'proto': key[2],
                'src_ip': None if key[3] == '*' else key[3],
                'src_port': key[4] or None,
                'dst_ip': None if key[5] == '*' else key[5],
                'dst_port': key[6] or None,
                'new_ip': key[7], 'new_port': key[8]}
        return key, key[0], spec

    def g_rule_unlink(self, world):
        if not world.rule_ref or self.rng.random() < 0.1:
            owner = self._owner(world)
            if owner is None:
                return None
            chain, spec = self._rule_spec()
            return {'owner': owner, 'chain': chain, 'rule': spec}
        key, chain, spec = self._held_rule(world)
        if self.rng.random() < 0.5:
            owner = world.rule_ref[key]
        else:
            owner = self._owner(world)
        if owner is None:
            return None
        return {'owner': owner, 'chain': chain, 'rule': spec}

    def g_rule_gc(self, world):
        return self._with_during(world, 'rule', {'ord': self.order()})

    def g_rule_init(self, world):
        return {'ord': self.order()}

    def _spec(self):
        rng = self.rng
        return {'app': rng.choice(SPEC_APPS), 'proto': rng.choice(['tcp',
                                                                   'udp']),
                'ep': rng.choice(['http', 'http2', 'ssh']),
                'rport': rng.choice([32768, 32769, 40000]),
                'pid': rng.choice([11, 12]), 'port': rng.choice([80, 8000])}

    def g_spec_create(self, world):
        owner = self._owner(world)
        if owner is None:
            return None
        held = sorted(k for k in world.spec_ref if len(k) == 6 and
                      not k[0].startswith(HS_HOST))
        spec = self._spec()
        if held and self.rng.random() < 0.35:
            key = self.rng.choice(held)
            same = {'app': key[0], 'proto': key[1], 'ep': key[2],
                    'rport': int(key[3]), 'pid': int(key[4]),
                    'port': int(key[5])}
            if self.rng.random() < 0.5:
                fld = self.rng.choice(sorted(same))
                same[fld] = spec[fld]
            spec = same
        return {'owner': owner, 'spec': spec}

    def g_spec_unlink(self, world):
        held = sorted(k for k in world.spec_ref if len(k) == 6 and
                      not k[0].startswith(HS_HOST))
        if not held or self.rng.random() < 0.1:
            owner = self._owner(world)
            if owner is None:
                return None
            return {'owner': owner, 'spec': self._spec()}
        key = self.rng.choice(held)
        spec = {'app': key[0], 'proto': key[1], 'ep': key[2],
                'rport': int(key[3]), 'pid': int(key[4]), 'port': int(key[5])}
        if self.rng.random() < 0.5:
            owner = world.spec_ref[key]
        else:
            owner = self._owner(world)
        if owner is None:
            return None
        return {'owner': owner, 'spec': spec}

    def g_spec_unlink_all(self, world):
        rng = self.rng
        held = sorted(k for k in world.spec_ref if len(k) == 6 and
                      not k[0].startswith(HS_HOST))
        if held and rng.random() < 0.8:
            key = rng.choice(held)
            app = key[0]
            owner = world.spec_ref[key] if rng.random() < 0.6 else \
                self._owner(world)
        else:
            app = rng.choice(SPEC_APPS)
            owner = self._owner(world)
        if owner is None:
            return None
        op = {'app': app, 'owner': owner, 'ord': self.order()}
        if rng.random() < 0.3:
            op['proto'] = rng.choice(['tcp', 'udp'])
        if rng.random() < 0.3:
            op['ep'] = rng.choice(['http', 'http2', 'ssh'])
        return op

    def g_spec_gc(self, world):
        return self._with_during(world, 'endpoint', {'ord': self.order()})

    def g_spec_init(self, world):
        return {'ord': self.order()}

    def g_hs_register(self, world):
        self.pids += 1
        return {'pid': self.pids, 'svc': self.rng.choice(['nodeinfo',
                                                          'tickets']),
                'port': self.rng.choice([5000, 5001]), 'ord': self.order()}

    def g_hs_die(self, world):
        if not world.hs:
            return None
        return {'pid': self.rng.choice(sorted(world.hs))}

    def g_net_put(self, world):
        names = sorted(world.owners)
        if not names:
            return None
        name = self.rng.choice(names)
        env = self.rng.choice(ENVS)
        if name in world.req and self.rng.random() < 0.85:
            env = self._env_of(world, name) or env
        return {'owner': name, 'env': env}

    @staticmethod
    def _env_of(world, name):
        path = os.path.join(world.rsrc_dir, name, _base_service.REQ_FILE)
        try:
            with open(path) as f:
                return yaml.safe_load(f).get('environment')
        except (OSError, AttributeError):
            return None

    def g_net_del(self, world):
        names = sorted(world.req)
        if not names:
            return None
        return {'owner': self.rng.choice(names)}

    def _faults(self, op, est, p_crash, p_fail):
        if self.frng.random() < p_crash:
            op['crash_at'] = self.frng.randint(1, max(1, est))
        elif self.frng.random() < p_fail:
            op['fail_at'] = self.frng.randint(1, max(1, est // 2))
        return op

    def g_svc_step(self, world):
        if world.impl is None:
            return None
        op = {'ord': self.order()}
        if self.prop == 'C14':
            self._faults(op, 14, self.config['p_svc_kill'],
                         self.config['p_cmd_fail'])
        return op

    def g_svc_crash(self, world):
        if world.impl is None:
            return None
        return {}

    def g_svc_start(self, world):
        op = {'ord': self.order()}
        if self.prop == 'C14' and \
                self.frng.random() < self.config.get('p_stat_fault', 0.0):
            # synchronize() ends with a GC pass over the service's vips
            try:
                ips = sorted(n for n in os.listdir(world.vips_dir)
                             if not n.startswith('.'))
            except OSError:
                ips = []
            if ips:
                op['stat_fault'] = {'name': self.frng.choice(ips),
                                    'errno': self.frng.choice(
                                        [errno.EIO, errno.ESTALE,
                                         errno.EACCES])}
                return op
        nlive = len(world._live_requests())
        if nlive and self.frng.random() < self.config['p_cmd_fail']:
            # initialize() makes 7 commands on a healthy bridge; each
            # replayed request of a healthy container makes one (ipset add)
            op['fail_at'] = 7 + self.frng.randint(1, nlive)
            return op
        return self._faults(op, 30, self.config['p_svc_kill'] * 0.5,
                            self.config['p_cmd_fail'])

    # -- C16
    def _manifest(self, app, task, uid):
        rng = self.rng
        cfg = self.config
        endpoints_ = []
        for i in range(rng.randint(0, cfg['max_endpoints'])):
            endpoints_.append({
                'name': rng.choice(['http', 'ssh', 'http2', 'ep%d' % i]),
                'port': rng.choice([0, 80, 8000, 8000, 22]),
                'type': rng.choice([None, None, 'infra']),
                'proto': rng.choice(['tcp', 'tcp', 'udp'])})
        vring = rng.choice([{'cells': []}, {'cells': ['cellb']}, {}])
        return {
            'name': '%s#%010d' % (app, task), 'app': app, 'task': '%010d' %
            task, 'uniqueid': uid, 'proid': 'proid',
            'environment': rng.choice(ENVS),
            'shared_network': rng.random() < 0.08,
            'shared_ip': rng.random() < 0.3,
            'endpoints': endpoints_,
            'ephemeral_ports': {'tcp': rng.randint(0, cfg['max_ephemeral']),
                                'udp': rng.randint(0, cfg['max_ephemeral'])},
            'passthrough': rng.sample(PASSTHROUGH_HOSTS,
                                      rng.choice([0, 0, 1, 2, 3])),
            'vring': vring,
        }

    def g_c_request(self, world):
        live = sum(1 for n in world.cont if n in world.owners)
        if live >= self.config['max_containers']:
            return None
        app, task, name = self._new_name()
        uid = name.rsplit('-', 1)[1]
        return {'name': name, 'manifest': self._manifest(app, task, uid)}

    def g_c_start(self, world):
        names = sorted(n for n, c in world.cont.items()
                       if c['state'] == 'requested' and n in world.owners)
        if not names:
            return None
        name = self.rng.choice(names)
        man = world.cont[name]['manifest']
        self.pids += 1
        est = (len(man['endpoints']) * 5 + man['ephemeral_ports']['tcp'] * 2 +
               man['ephemeral_ports']['udp'] * 2 + len(man['passthrough']) +
               12)
        op = {'name': name, 'pid': self.pids,
              'rkey': self.rng.randint(1, 1 << 30), 'ord': self.order()}
        self._resolve_fault(op, man)
        if not man['shared_network'] and self._io_fault(op, IO_POINTS_START):
            return op
        if not man['shared_network'] and self.frng.random() < \
                self.config.get('p_presence_fault', 0.0):
            # the last step of the start: presence registration is answered
            # with an error, or not in time
            op['presence_fault'] = self.frng.choice(['error', 'timeout'])
            return op
        return self._faults(op, est, self.config['p_start_kill'],
                            self.config['p_cmd_fail'])

    @staticmethod
    def _finish_steps(cont):
        """Steps a complete finish of a fully started container takes."""
        man = cont['manifest']
        created = cont['created'] or {'rules': {}, 'endpoints': {},
                                      'ipsets': []}
        infra = sum(1 for ep in man['endpoints'] if ep['type'] == 'infra')
        eph = man['ephemeral_ports']['tcp'] + man['ephemeral_ports']['udp']
        return (1 + len(created['rules']) + len(created['endpoints']) +
                (1 if man['vring'] else 0) + infra + eph + 1 + 2)

    def g_c_finish(self, world):
        names = sorted(n for n in world.cont if n in world.owners)
        if not names:
            return None
        todo = [n for n in names if not world.cont[n]['finished'] and
                world.cont[n]['state'] != 'requested']
        r = self.rng.random()
        if todo and r < 0.8:
            name = self.rng.choice(todo)
            if world.cont[name].get('finish_killed') and \
                    self.rng.random() < self.config['refinish_delay']:
                return None     # leave time for others to start in between
        elif r < 0.9:
            return None
        else:
            name = self.rng.choice(names)
        cont = world.cont[name]
        op = {'name': name, 'ord': self.order()}
        self._resolve_fault(op, cont['manifest'])
        if self._io_fault(op, IO_POINTS_FINISH):
            return op
        if cont['state'] == 'started' and not cont['finished']:
            total = self._finish_steps(cont)
            if self.frng.random() < self.config['p_finish_kill']:
                if self.frng.random() < 0.4:
                    op['crash_at'] = max(1, total - self.frng.randint(0, 3))
                else:
                    op['crash_at'] = self.frng.randint(1, total)
                return op
            return self._faults(op, total, 0.0, self.config['p_cmd_fail'])
        man = cont['manifest']
        est = (len(man['endpoints']) * 4 + man['ephemeral_ports']['tcp'] * 2 +
               man['ephemeral_ports']['udp'] * 2 + len(man['passthrough']) +
               6)
        return self._faults(op, est, self.config['p_finish_kill'],
                            self.config['p_cmd_fail'])

    def _io_fault(self, op, points):
        """One system call fails once: the k-th open() / read of the files
        this start or finish works with (whichever file that is) returns a
        transient error; the same call succeeds when it is made again."""
        p_fault = self.config.get('p_io_fault', 0.0)
        if not p_fault or self.irng.random() >= p_fault:
            return False
        op['io_fault'] = {'at': self.irng.randint(1, points),
                          'errno': self.irng.choice(IO_ERRNOS)}
        return True

    def _resolve_fault(self, op, man):
        """The resolver fails (socket.gaierror) for some of the passthrough
        hosts while this op runs."""
        hosts = sorted(h for h in set(man['passthrough']) if h in DNS)
        if hosts and not man['shared_network'] and \
                self.frng.random() < self.config.get('p_resolve_fault', 0.0):
            k = self.frng.randint(1, len(hosts))
            op['resolve_fault'] = sorted(self.frng.sample(hosts, k))

    def g_c_remove(self, world):
        names = sorted(n for n, c in world.cont.items()
                       if c['finished'] and n in world.owners)
        if not names:
            return None
        return {'name': self.rng.choice(names)}

    def g_port_busy(self, world):
        rng = self.rng
        low = rng.choice([runtime.PROD_PORT_LOW, runtime.NONPROD_PORT_LOW])
        return {'type': rng.choice([1, 2]),
                'port': low + rng.randrange(self.config['hot_ports']),
                'busy': rng.random() < 0.7}


def make_config(prop, tier, rng):
    big = (tier == 'thorough')
    table = C14_WEIGHTS if prop == 'C14' else C16_WEIGHTS
    wmul = {}
    for key, _w in table:
        wmul[key] = rng.choice([0.0, 0.5, 1.0, 1.0, 2.0])
    for key in ('owner_add', 'svc_step', 'c_request', 'c_start', 'c_finish'):
        if key in wmul:
            wmul[key] = rng.choice([0.7, 1.0, 1.5])
    cfg = {
        'start': 1700000000.0 + rng.randint(0, 7 * 86400),
        'n_ops': rng.randint(12, 120 if big else 60),
        'cidr': rng.choice(['10.20.0.0/30', '10.20.0.0/29', '10.20.0.8/29',
                            '10.20.0.0/28']),
        'max_owners': rng.randint(2, 6),
        'max_containers': rng.randint(1, 5),
        'max_endpoints': rng.choice([1, 2, 4, 4]),
        'max_ephemeral': rng.choice([0, 1, 3, 3]),
        'hot_ports': rng.choice([2, 4, 6, 12]),
        'permute': rng.random() < 0.8,
        'p_during': rng.choice([0.0, 0.3, 0.6]),
        'p_svc_kill': rng.choice([0.0, 0.05, 0.15]),
        'p_cmd_fail': rng.choice([0.0, 0.05, 0.15]),
        'p_start_kill': rng.choice([0.0, 0.15, 0.35]),
        'p_finish_kill': rng.choice([0.0, 0.15, 0.35]),
        'refinish_delay': rng.choice([0.0, 0.5, 0.85]),
        'wmul': wmul,
    }
    # directory layout (drawn last: the other parameters of a seed are what
    # they were before layouts existed)
    layout = {}
    if rng.random() < 0.6:
        for key in LAYOUT_KEYS:
            layout[key] = rng.random() < 0.4
    cfg['layout'] = layout
    cfg['p_stat_fault'] = rng.choice([0.0, 0.1, 0.25])
    cfg['p_resolve_fault'] = rng.choice([0.0, 0.15, 0.35])
    cfg['p_presence_fault'] = rng.choice([0.0, 0.1, 0.25])
    # further VipMgr pools (other, disjoint CIDRs) on the same directory
    extra = rng.choice([[], [], ['10.21.0.0/30'], ['10.21.0.0/29'],
                        ['10.21.0.0/30', '10.22.0.0/29']])
    cfg['extra_pools'] = extra
    if extra and prop == 'C14':
        # the user of one pool restarts while the others hold addresses
        wmul['vip_init'] = rng.choice([1.0, 4.0, 8.0])
    # transient open()/read errors in starts and finishes (C16; drawn last)
    cfg['p_io_fault'] = rng.choice([0.0, 0.1, 0.25])
    # within-operation pre-emption of client put / delete / finish and of
    # service starts; restarts of the service in C16 runs (drawn last)
    cfg['p_preempt'] = rng.choice([0.0, 0.15, 0.3])
    cfg['p_svc_restart'] = rng.choice([0.0, 0.03, 0.08])
    if rng.random() < 0.05:
        cfg['staged'] = {'name': 'delete_split_reput' if prop == 'C14' else
                                 'restart_during_finish',
                         'at': rng.randint(1, max(1, cfg['n_ops'] - 20))}
    return cfg


class NetSim(enginemod.Engine):
    name = 'netsim'
    serves = ('C14', 'C16')
    real_components = (
        'treadmill.vipfile.VipMgr (alloc, alloc picked, free, '
        'garbage_collect, initialize, list)',
        'treadmill.rulefile.RuleMgr (create_rule, unlink_rule, '
        'garbage_collect, get_rules, initialize)',
        'treadmill.endpoints.EndpointsMgr (create_spec, unlink_spec, '
        'unlink_all, get_specs) and endpoints.garbage_collect',
        'treadmill.services.network_service.NetworkResourceService '
        '(initialize, synchronize, on_create_request, on_delete_request)',
        'treadmill.services LinuxResourceService/ResourceService request '
        'plumbing (_on_created, _on_deleted, _check_requests, '
        'clt_new/update/del_request) and ResourceServiceClient (put, delete, '
        'get, wait(timeout=0)), request.yml/reply.yml on disk',
        'treadmill.dirwatch.DirWatcher on real inotify (tmpfs)',
        'treadmill.appenv LinuxAppEnvironment (rules, endpoints, '
        'svc_network objects)',
        'treadmill.runtime.allocate_network_ports, save_app, load_app_safe',
        'treadmill.runtime.linux._run._unshare_network',
        'treadmill.runtime.linux._finish._cleanup_network (+ '
        '_cleanup_ephemeral_ports, _cleanup_exception_rules)',
        'one to three VipMgr pools with disjoint CIDRs on ONE vips directory '
        'and one owners directory (config["extra_pools"]; as '
        'warpgate.policy_server._init_networks builds them): alloc / free / '
        'garbage_collect / initialize go through any of them',
        'real directories and symlinks on a private tmpfs tree; per-run '
        'directory layout (config["layout"]): apps/, rules/, endpoints/, the '
        'VipMgr directory, network_svc/, network_svc/vips and '
        'network_svc/resources are each a plain directory or a symlink to a '
        'directory with another parent at another depth; the stand-alone '
        'VipMgr is built from absolute or working-directory-relative paths',
    )
    stub_components = (
        'LinuxResourceService._run event loop (poll/eventfd/status socket/'
        'watchdog): the harness performs its steps in the same order '
        '(initialize, watcher, _check_requests, _on_created for each, '
        'synchronize; then process_events(MAX_REQUEST_PER_CYCLE) + '
        '_check_requests per svc_step op)',
        'runtime.linux._run.run is the real function from its first to its '
        'last line (resource requests, waits, allocate_network_ports, '
        'save_app, _unshare_network, presence registration, in the code\'s '
        'own order) and ends at subproc.exec_pid1 (stub); stand-ins in '
        'between: _create_root_dir (no mkfs/unshare/mount), '
        'image.get_image/unpack, fs_linux.cleanup_mounts, apphook.configure; '
        'the cgroup, localdisk and presence services of tm_env are stand-ins '
        'that reply at once (empty cgroup reply: nothing is joined) - the '
        'presence one answers with an _error reply or not in time when the '
        'op says so ("presence_fault"); shared-network containers do not go '
        'through run() (it would wait 15 min for a network reply it never '
        'requested): ports + save_app only',
        'services._base_service.wait_for_file (inotify wait with a real-time '
        'timeout): while a client waits the harness lets the network service '
        'process its events; timeout when the service is down or idle',
        '_finish.finish / _cleanup outer bodies (presence, localdisk, cgroup, '
        'rrd, archive): the harness calls load_app_safe and _cleanup_network '
        'under the condition _cleanup uses',
        'treadmill.netdev: in-process device table (can fail with '
        'CalledProcessError)',
        'treadmill.iptables: ip-set tables as python sets, '
        'flush_cnt_conntrack_table recorded (can fail)',
        'treadmill.newnet.create_newnet: recorded',
        'socket in treadmill.runtime: host port table with EADDRINUSE; '
        'socket.gethostbyname: IPv4 literals (any form inet_aton accepts) '
        'are canonicalised as the real resolver does, names come from a '
        'fixed table; constants, exception classes and inet_*/hton* are the '
        'real ones; hosts named in the op\'s '
        '"resolve_fault" raise socket.gaierror while that op (a start or a '
        'finish) runs',
        'random in treadmill.runtime: permutation of the port pool decided '
        'by the op (a few hot ports first)',
        'plugin_manager.load(firewall plugin): raises KeyError (the '
        'entry-point section is empty in this tree)',
        'os.getpid in _run: the container pid carried by the op',
        'second scheduling granularity (C14): a garbage-collection pass can '
        'be pre-empted (a) between two entries - RuleMgr.garbage_collect at '
        'the watchdog_lease.heartbeat() call it makes itself (lease supplied '
        'by the harness, heartbeat interval 1e-9 s so that it fires after '
        'every rule), VipMgr.garbage_collect and endpoints.garbage_collect '
        'before each entry\'s os.stat() - op field "during": [{"at": k, '
        '"ops": [...]}]; (b) in all three loops between the stat() that '
        'found an entry ownerless and the unlink() that reclaims it - '
        '"during": [{"window": <entry file name>, "ops": [...]}].  The ops '
        'are complete operations of other owners',
        'lookup faults: stat()/lstat()/os.path.exists() of one named entry '
        'fail with EIO/ESTALE/EACCES during a GC op or a service start '
        '("stat_fault" in the op)',
        'transient system-call failures (C16): `io` of '
        'services._base_service, appcfg.manifest and runtime.linux._finish '
        'is a counting pass-through to the real io module; every io.open() '
        'and every read call on a file so opened (request.yml, svc_req_id, '
        'reply.yml, state.json - whichever file it is) is an I/O point of '
        'the start / finish in progress, and the k-th one fails once with '
        'EIO / ENFILE / EMFILE / ENOMEM / EACCES when the op says '
        '"io_fault": {"at": k, "errno": E} (open-only errnos reach a read '
        'as EIO); the calls of the network service made while a client '
        'waits are not points of the client; a finish that raises is '
        'retried like any failed finish, a finish that returns is held to '
        'the leftover clause',
        'clock (virtual); directory listing order (sorted, then permuted by '
        'the op); tempfile.mktemp in _base_service (counter)',
    )

    RULES = {
        'C14': 'non-trivial: a release attempted by a non-owner on a held '
               'entry, a create attempted on an entry held by another owner, '
               'a garbage collection with both live and dead owners present or '
               'pre-empted by operations of other owners, '
               'or a service restart with live requests',
        'C16': 'non-trivial: a finish that removed registrations while '
               'another container had registrations on the host',
    }

    def rule(self, prop):
        return ('seeded op mix per run (swarm), adaptive generator over a '
                'small pool of owners/rules/specs/ports so that collisions '
                'happen; every op is followed by a comparison of the real '
                'directories with the reference; ' + self.RULES[prop] +
                ' (distinct_nontrivial counts distinct runs containing one)')

    def level(self, prop):
        return 'exploration'

    def assumptions(self, prop):
        out = [
            'interleaving: one operation of one owner at a time, except that '
            'a GC pass (rule, vip, endpoint) can be pre-empted between two '
            'entries by complete owner_add/owner_del/create/release '
            'operations of other owners, and between the stat() and the '
            'unlink() of one entry.  NOT interleaved: the inside of any '
            'non-GC operation, NetworkResourceService.synchronize and '
            '_check_requests, two concurrent GC passes',
            'a kill lands before a mutating file-system call or an external '
            'command of the op; tmpfs keeps what was done before it',
            'virtual clock advances at least 1 s per op',
            'only the first violation of a run is reported',
        ]
        if prop == 'C14':
            out += [
                'an owner exists iff the harness created its apps/<unique '
                'name> directory and has not removed it (host services: '
                'proc/<pid>) - decided from the harness\'s own table, never '
                'by following an entry\'s link; a network request is live '
                'iff its resources/<id> link resolves',
                'LinuxAppEnvironment is given an absolute root (a relative '
                'approot is not a supported configuration: create_spec '
                'stores the owner path it is given)',
                'a restarted service must not release an ip it acknowledged '
                'to a request that is still registered and whose veth is '
                'intact (exists, on br0, carries the request alias); when the '
                'bridge had to be re-created during that start, or the veth '
                'was gone, the service\'s recovery by destruction is left '
                'open',
                'a request whose latest reply is an error (after an injected '
                'netdev/ipset failure) is no longer considered to have been '
                'told an IP',
                'VipMgr.initialize is the restart of the user of one pool: it '
                'is expected to drop every address of that pool\'s CIDR '
                '(whoever holds it) and nothing else; pools sharing a '
                'directory have disjoint CIDRs',
                'ownerless unlink_all (host-service pattern) is an '
                'administrative release and expected to take effect',
                'GC oracle under pre-emption: an entry whose holder has '
                'existed ever since it holds the entry (or since the pass '
                'began) must survive; an entry present when the pass began, '
                'with the same holder, whose holder did not exist then and '
                'never appeared during the pass must be gone at its end; '
                'entries whose holder appeared or vanished during the pass '
                'are open; a violation whose entry was released and taken '
                'again inside its own stat()-unlink() window carries the '
                'signature suffix :in-stat-unlink-window',
            ]
        else:
            out += [
                'DNS answers are stable (a name resolves to the same address '
                'or, under an injected resolver fault, not at all); a finish '
                'that raises is a failed operation and is retried; the '
                'firewall plug-in is absent',
                'an injected open()/read failure is transient (one call, '
                'one errno other than ENOENT; the same call succeeds when '
                'repeated) and hits files opened through io.open only '
                '(not fs.write_safe temporary files, not builtin open)',
                'the network service is up and fault-free during C16 runs',
                'a finished container is one whose _cleanup_network returned; '
                'the vip and the prod/non-prod ip-set entry are compared once '
                'the container directory is removed and the service is idle '
                '(drain op)',
                'container pids are distinct',
            ]
        return out

    def quick_runs(self, prop):
        # ~10 s (C14) / ~13 s (C16) of CPU per core on 16 cores
        return 8000 if prop == 'C14' else 4400

    def make_config(self, prop, tier, rng):
        return make_config(prop, tier, rng)

    def shrink_candidates(self, config, ops):
        """Simpler variants, least aggressive first (a later one that still
        fails replaces an earlier one)."""
        def strip(keys):
            out = []
            for op in ops:
                op = dict(op)
                for key in keys:
                    if key == 'ord':
                        if 'ord' in op:
                            op['ord'] = 0
                    else:
                        op.pop(key, None)
                out.append(op)
            return out
        yield config, strip(['fail_at'])
        yield config, strip(['ord'])
        yield config, strip(['ord', 'fail_at'])

    def execute(self, prop, config, seed, ops=None, keep_log=False):
        simkit.quiet_logging()
        res = enginemod.Result()
        log = logmod.EventLog(keep=keep_log)
        log.ev('seed', seed, prop)
        seam = fsseam.Seam()
        seam.make_error = _mk_error
        if keep_log:
            # steps are shown in a kept log for diagnosis but are not part of
            # the digest: their order inside one call can depend on the
            # iteration order of a set in the repo code (PYTHONHASHSEED)
            seam.on_step = lambda kind, what: log.lines.append(
                logmod.canon(['step', kind, what]))
        patches = fsseam.Patches()
        clock = clockmod.Clock(config['start'])
        root = fsseam.make_scratch()
        world = None
        del fsseam.PENDING_HARNESS_ERRORS[:]
        clock.install()
        try:
            world = World(config, clock, prop, log, root, seam)
            self._install(patches, world)
            world.op_svc_start({'op': 'svc_start'})
            world.initial = world.host_snapshot()
            t_begin = clock.peek()
            executed = []
            if ops is None:
                gen = Generator(config, rngmod.Streams(seed), prop)
                source = None
            else:
                gen = None
                source = iter(ops)
            n = 0
            while world.violation is None:
                if gen is not None:
                    if n >= config['n_ops']:
                        break
                    op = gen.next_op(world)
                else:
                    op = next(source, None)
                    if op is None:
                        break
                n += 1
                self._run_op(world, log, executed, op, n)
            if gen is not None and world.violation is None and prop == 'C16':
                n += 1
                self._run_op(world, log, executed,
                             {'op': 'drain', 'ord': gen.order()}, n)
            res.ops = executed
            res.violation = world.violation
            res.steps = n
            res.sim_s = clock.peek() - t_begin
            res.faults = world.faults
            world.probes['seam_steps'] = seam.total_steps
            res.probes = world.probes
            res.fps = world.fps
            res.nontrivial = world.nontrivial
            res.trace_fp = logmod.fingerprint(executed)
            if world.violation is not None:
                log.ev('violation', world.violation['sig'])
            res.digest = log.digest()
            res.log_lines = log.lines if keep_log else None
        finally:
            patches.undo()
            clock.uninstall()
            if world is not None:
                world.close()
            fsseam.remove_scratch(root)
        return res

    @staticmethod
    def _run_op(world, log, executed, op, n):
        world.step = n
        executed.append(op)
        log.ev('op', op)
        try:
            world.apply(op)
        finally:
            # a shim noticed a defect of the harness while repo code ran
            # (the repo code may have swallowed the exception): exit 2
            if fsseam.PENDING_HARNESS_ERRORS:
                fsseam.raise_pending_harness_error()

    @staticmethod
    def _install(patches, world):
        seam = world.seam
        seam_os = fsseam.SeamOS(seam)
        seam_glob = fsseam.SeamGlob(seam)
        for mod in (_base_service, _linux_base_service, treadmill.fs):
            patches.set(mod, 'os', seam_os)
        # every file the start / finish path opens with io.open: request.yml,
        # svc_req_id, reply.yml (resource service client), state.json
        # (runtime.load_app -> appcfg.manifest.read), the exit files of
        # _finish
        for mod in (_base_service, app_manifest, _finish):
            patches.set(mod, 'io', world.io)
        # GC scan loops.  RuleMgr.garbage_collect is pre-emptible at the
        # heartbeat it makes itself; VipMgr.garbage_collect and
        # endpoints.garbage_collect (no callback) before each entry's stat();
        # all three in the window between that stat() and the unlink().
        patches.set(rulefile, 'os', fsseam.SeamOS(
            seam, unlink_checkpoint=True))
        scan_os = fsseam.SeamOS(seam, stat_checkpoint=True,
                                unlink_checkpoint=True)
        patches.set(vipfile, 'os', scan_os)
        patches.set(endpoints, 'os', scan_os)
        patches.set(endpoints, 'glob', seam_glob)
        patches.set(_base_service, 'glob', seam_glob)
        patches.set(_base_service, 'tempfile', fsseam.CountingTempfile())
        patches.set(network_service, 'netdev', world.netdev)
        patches.set(network_service, 'iptables', world.ipt)
        patches.set(runtime, 'socket', world.sock)
        patches.set(runtime, 'random', world.rnd)
        patches.set(_run, 'iptables', world.ipt)
        patches.set(_run, 'newnet', world.newnet)
        patches.set(_run, 'socket', world.sock)
        patches.set(_run, 'plugin_manager', world.pm)
        patches.set(_run, 'os', fsseam.SeamOS(
            seam, {'getpid': world.pid.getpid}))
        patches.set(_run, 'image', _NoImage)
        patches.set(_run, '_create_root_dir', _no_root_dir)
        patches.set(_run, 'fs_linux', _FsLinux())
        patches.set(_run, 'apphook', _AppHook())
        patches.set(_run, 'subproc', _Subproc())
        patches.set(_base_service, 'wait_for_file', world.wait_for_file)
        patches.set(_finish, 'iptables', world.ipt)
        patches.set(_finish, 'socket', world.sock)
        patches.set(_finish, 'plugin_manager', world.pm)


ENGINE = NetSim()
