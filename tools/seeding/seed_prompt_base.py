import json, sys
pid=sys.argv[1]
for line in open('/verif/properties.jsonl'):
    d=json.loads(line)
    if d['id']==pid: break
print(f"""You are given a scratch git worktree of the repository Morgan-Stanley/treadmill (Python cluster scheduler) at /tmp/seed-{pid} . Work ONLY inside /tmp/seed-{pid} (never touch /repo or /verif; do not read /verif). Python: /venv/bin/python ; run the repo's tests with e.g.
  cd /tmp/seed-{pid} && PYTHONPATH=/tmp/seed-{pid}/lib/python /venv/bin/python -m pytest -q -p no:cacheprovider lib/python/treadmill/tests/scheduler_test.py lib/python/treadmill/tests/master_test.py
(the whole suite: `cd /tmp/seed-{pid} && PYTHONPATH=/tmp/seed-{pid}/lib/python /venv/bin/python -m pytest -q -p no:cacheprovider --timeout=900 --continue-on-collection-errors` ; it takes ~15 s; ~140 tests fail and 25 error even on the unchanged tree for environment reasons — record the set of passing tests BEFORE your change and make sure every test that passed before still passes after).

Here is a semantic property that the code is supposed to satisfy:

  {d['id']} — {d['title']}
  STATEMENT: {d['statement']}
  QUANTIFIER: {d['quantifier']['text']}
  Code it is anchored in: {', '.join(d['anchors']['files'])}

TASK: produce ONE realistic change (a plausible refactoring slip, optimisation, off-by-one, wrong branch, missing cleanup, reordered steps — the kind of regression a maintainer could really commit) to the code under lib/python/treadmill (not to tests) that BREAKS this property while the code still imports/compiles and every test that passed before still passes. The breakage must need something SPECIFIC to manifest — a particular interleaving, a crash or fault at a particular point, a multi-step sequence of operations, an unusual input, or two cooperating sites that each look fine alone — not something ordinary use would expose at once. Prefer subtle over blunt. Do not add dead-giveaway comments.

Deliverables, all inside /tmp/seed-{pid}/seeded_out/ (create it):
  1. patch.diff — `git diff` of your change (against the worktree HEAD), applying cleanly with `git apply`.
  2. demo.py (or demo_test.py) — a small self-contained program using the real treadmill modules (PYTHONPATH=<tree>/lib/python; note: `treadmill.scheduler.DIMENSION_COUNT = 3` must be set before building cells; the package is not pip-installed, so avoid things that need setuptools entry points) that exits non-zero / fails WITH the change and exits 0 / passes WITHOUT it. Verify both yourself (use `git stash` or `git apply -R`).
  3. meta.json — {{"property": "{pid}", "summary": one sentence, "needs_to_manifest": what specific sequence/fault/interleaving/input is needed, "files_changed": [...], "tests_run": the commands you ran and their pass counts before/after}}.
Leave the worktree with the change APPLIED (uncommitted) at the end. Keep your final report short: the summary, what it needs to manifest, and the before/after test counts.""")
