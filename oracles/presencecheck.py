"""C17 oracle over the SimZk op log (independent of the service's bookkeeping).

The op log holds one entry (seq, sid, op, path, owner_before, extra) per
mutating ZooKeeper call.  The harness tells the oracle which host and which
kind of process a session belongs to (ground truth it holds because it opened
the session); everything else is read from the log and the tree.

Clauses (numbers as in engines/presencesim.py):
 (1) a presence node created by a presence session (service or container
     runtime) is ephemeral (and therefore owned by the creating session);
 (2) no `set`/`delete` by session S on a presence node whose owner at that
     instant is another session.  owner_before == 0 (a persistent node) is not
     "owned by another session": the statement protects other sessions'
     registrations only, and a persistent presence node can only come from
     the service itself (clause 1 reports that at the create).  The one
     intended foreign delete in the repo is presence.kill_node (admin tool):
     it may remove nodes registered by the host being killed, never a node
     registered by another host;
 (4) `/scheduled/<inst>` is deleted by a node-side session only while
     `/placement/<that host>/<inst>` exists (placement tracked from the log,
     so "at that instant" is exact).
Clauses (3) and (5) need the request history and live in the engine.
"""

PRESENCE_KINDS = ('running', 'endpoint', 'identity')


def classify(path):
    """-> (kind, key) for the paths the property talks about, else None."""
    parts = path.split('/')
    if len(parts) == 3 and parts[1] == 'running':
        return 'running', parts[2]
    if len(parts) == 4 and parts[1] == 'endpoints':
        return 'endpoint', parts[3]
    if len(parts) == 4 and parts[1] == 'identity-groups':
        return 'identity', parts[3]
    if len(parts) == 3 and parts[1] == 'scheduled':
        return 'scheduled', parts[2]
    if len(parts) == 4 and parts[1] == 'placement':
        return 'placement', (parts[2], parts[3])
    return None


class Oracle:
    def __init__(self, zk):
        self.zk = zk
        self.pos = len(zk.oplog)
        self.roles = {}           # sid -> (role, host); role in svc/rt/pub/admin
        self.placed = {}          # inst -> set of hosts (from the log)
        self.counts = {'presence_creates': 0, 'own_deletes': 0, 'own_sets': 0,
                       'kill_node_removed': 0, 'scheduled_deleted_by_owner': 0,
                       'expired_nodes': 0}

    def set_role(self, sid, role, host):
        self.roles[sid] = (role, host)

    def seed_placement(self):
        """Placement present before the oracle started (set-up)."""
        for path in self.zk.nodes:
            cls = classify(path)
            if cls and cls[0] == 'placement':
                host, inst = cls[1]
                self.placed.setdefault(inst, set()).add(host)

    def scan(self, kill_node=None):
        """Check the entries appended since the last scan.
        Returns None or (sig, detail)."""
        oplog = self.zk.oplog
        bad = None
        while self.pos < len(oplog):
            entry = oplog[self.pos]
            self.pos += 1
            if bad is None:
                bad = self._check(entry, kill_node)
            else:
                self._track(entry)
        return bad

    def _track(self, entry):
        _seq, _sid, op, path, _owner, _extra = entry
        cls = classify(path)
        if cls and cls[0] == 'placement':
            host, inst = cls[1]
            if op == 'create':
                self.placed.setdefault(inst, set()).add(host)
            elif op in ('delete', 'expire'):
                self.placed.get(inst, set()).discard(host)

    def _check(self, entry, kill_node):
        seq, sid, op, path, owner_before, extra = entry
        self._track(entry)
        cls = classify(path)
        if cls is None:
            return None
        kind = cls[0]
        role, host = self.roles.get(sid, ('?', None))
        if op == 'expire':
            if kind in PRESENCE_KINDS:
                self.counts['expired_nodes'] += 1
            return None
        if kind in PRESENCE_KINDS:
            if op == 'create':
                if role in ('svc', 'rt'):
                    self.counts['presence_creates'] += 1
                    if not (extra or {}).get('ephemeral'):
                        return ('C17:created-non-ephemeral:%s' % kind,
                                '%s session %d of %s created %s as a '
                                'persistent node (oplog #%d)' % (
                                    role, sid, host, path, seq))
                return None
            if op not in ('set', 'delete'):
                return None
            if owner_before in (0, sid):
                if owner_before == sid:
                    self.counts['own_deletes' if op == 'delete'
                                else 'own_sets'] += 1
                return None
            orole, ohost = self.roles.get(owner_before, ('?', None))
            if role == 'admin' and kill_node is not None:
                if ohost == kill_node:
                    self.counts['kill_node_removed'] += 1
                    return None
                return ('C17:kill-node-%s-other-hosts-node:%s' % (
                    'deleted' if op == 'delete' else 'set', kind),
                        'kill_node(%s) did %s %s which was registered by '
                        'session %d (%s of %s) (oplog #%d)' % (
                            kill_node, op, path, owner_before, orole, ohost,
                            seq))
            return ('C17:%s-foreign-node:%s' % (
                'deleted' if op == 'delete' else 'set', kind),
                    'session %d (%s of %s) did %s %s while it was owned by '
                    'session %d (%s of %s) (oplog #%d)' % (
                        sid, role, host, op, path, owner_before, orole,
                        ohost, seq))
        if kind == 'scheduled' and op == 'delete' and role in ('svc', 'rt',
                                                                'pub'):
            inst = cls[1]
            if host in self.placed.get(inst, ()):
                self.counts['scheduled_deleted_by_owner'] += 1
                return None
            return ('C17:scheduled-deleted-by-non-owner',
                    '%s deleted %s while the placement of %s was %s '
                    '(oplog #%d)' % (host, path, inst,
                                     sorted(self.placed.get(inst, ())) or
                                     'nowhere', seq))
        return None
