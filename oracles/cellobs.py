"""Harness-side observation of the real scheduler (no edits to /repo).

Wrappers are installed once per process on the scheduler classes; they only
record into the current Recorder (if any) and otherwise call through.
"""

import simkit  # noqa: F401

from treadmill import scheduler

_REC = None
_INSTALLED = False
_CYCLE_HOOK = None


def set_cycle_hook(hook):
    """hook(cell, orig_schedule) -> placement, called instead of
    Cell.schedule (used to observe cycles run by the real Master)."""
    global _CYCLE_HOOK
    _CYCLE_HOOK = hook


class Recorder:
    """What happened inside one cell.schedule() call."""

    __slots__ = ('queues', 'entries', 'events', 'tree_depth', 'in_restore',
                 'in_find', 'cur_label')

    def __init__(self):
        self.queues = []      # [(label, [app names in the order used])]
        self.entries = []     # [(label, [(rank, ub, ua, pending, order, name)])]
        self.events = []      # [('put'|'remove', app, server, provenance)]
        self.tree_depth = 0
        self.in_restore = 0
        self.in_find = 0
        self.cur_label = None


def set_recorder(rec):
    global _REC
    _REC = rec


def install():
    global _INSTALLED
    if _INSTALLED:
        return
    _INSTALLED = True

    orig_schedule = scheduler.Cell.schedule

    # every wrapper passes extra positional / keyword arguments through
    # untouched: a signature that grows an optional parameter in the code
    # under test must not make the observer raise
    def schedule(self, *args, **kwargs):
        hook = _CYCLE_HOOK
        if hook is None or args or kwargs:
            return orig_schedule(self, *args, **kwargs)
        return hook(self, orig_schedule)

    orig_find = scheduler.Cell._find_placements
    orig_record = scheduler.Cell._record_rank_and_util
    orig_sched_alloc = scheduler.Cell.schedule_alloc
    orig_bucket_put = scheduler.Bucket.put
    orig_server_put = scheduler.Server.put
    orig_server_restore = scheduler.Server.restore
    orig_server_remove = scheduler.Server.remove
    orig_feasible = scheduler.PlacementFeasibilityTracker.feasible

    def feasible(self, app, *args, **kwargs):
        rc = orig_feasible(self, app, *args, **kwargs)
        rec = _REC
        if rec is not None and not rc:
            rec.events.append(('infeasible', app.name, None, 'tracker'))
        return rc

    def schedule_alloc(self, allocation, *args, **kwargs):
        rec = _REC
        if rec is not None:
            rec.cur_label = allocation.label
        return orig_sched_alloc(self, allocation, *args, **kwargs)

    def _record_rank_and_util(self, queue, *args, **kwargs):
        rec = _REC
        if rec is not None:
            queue = list(queue)
            rec.entries.append((rec.cur_label, [
                (item[0], float(item[1]), float(item[2]), item[3], item[4],
                 item[-1].name, item[-1].server) for item in queue]))
        return orig_record(self, queue, *args, **kwargs)

    def _find_placements(self, queue, *args, **kwargs):
        rec = _REC
        if rec is None:
            return orig_find(self, queue, *args, **kwargs)
        rec.queues.append((rec.cur_label, [app.name for app in queue]))
        rec.in_find += 1
        try:
            return orig_find(self, queue, *args, **kwargs)
        finally:
            rec.in_find -= 1

    def bucket_put(self, app, *args, **kwargs):
        rec = _REC
        if rec is None:
            return orig_bucket_put(self, app, *args, **kwargs)
        rec.tree_depth += 1
        try:
            return orig_bucket_put(self, app, *args, **kwargs)
        finally:
            rec.tree_depth -= 1

    def server_put(self, app, *args, **kwargs):
        rec = _REC
        if rec is None:
            return orig_server_put(self, app, *args, **kwargs)
        rc = orig_server_put(self, app, *args, **kwargs)
        if rc:
            if rec.in_restore:
                prov = 'restore'
            elif rec.tree_depth:
                prov = 'tree'
            elif rec.in_find:
                prov = 'evict-direct'
            else:
                prov = 'external'
            rec.events.append(('put', app.name, self.name, prov))
        return rc

    def server_restore(self, app, *args, **kwargs):
        rec = _REC
        if rec is None:
            return orig_server_restore(self, app, *args, **kwargs)
        rec.in_restore += 1
        try:
            return orig_server_restore(self, app, *args, **kwargs)
        finally:
            rec.in_restore -= 1

    def server_remove(self, app_name, *args, **kwargs):
        rec = _REC
        if rec is not None:
            rec.events.append(('remove', app_name, self.name,
                               'find' if rec.in_find else 'pre'))
        return orig_server_remove(self, app_name, *args, **kwargs)

    scheduler.Cell.schedule = schedule
    scheduler.Cell.schedule_alloc = schedule_alloc
    scheduler.Cell._record_rank_and_util = _record_rank_and_util
    scheduler.Cell._find_placements = _find_placements
    scheduler.Bucket.put = bucket_put
    scheduler.Server.put = server_put
    scheduler.Server.restore = server_restore
    scheduler.Server.remove = server_remove
    scheduler.PlacementFeasibilityTracker.feasible = feasible


def leaves(cell):
    """Independent walk of the topology: name -> Server object."""
    out = {}
    stack = [cell]
    while stack:
        node = stack.pop()
        for child in node.children:
            if child is None:
                continue
            if isinstance(child, scheduler.Server):
                out[child.name] = child
            else:
                stack.append(child)
    return out


def ancestors(node):
    """Node and all its ancestors, bottom-up."""
    out = []
    while node is not None:
        out.append(node)
        node = node.parent
    return out


def all_nodes(cell):
    out = []
    stack = [cell]
    while stack:
        node = stack.pop()
        out.append(node)
        for child in node.children:
            if child is not None:
                stack.append(child)
    return out
